#!/bin/bash
# Scratch rig for sensitivity experiments, fully outside /repo and /verif:
#   tools/mutrig.sh setup                      worktree of /repo HEAD + copy of the harness under $RIG
#   tools/mutrig.sh run <spec> <vp args...>    spec = file.diff | revert:<commit> | none
#                                              applies spec to the scratch worktree, rebuilds, runs vp, undoes
#   tools/mutrig.sh sync                       re-copy harness sources / known findings from /verif
#   tools/mutrig.sh clean                      remove everything (worktree + build output)
set -u
RIG="${RIG:-/tmp/mutrig}"
cmd="${1:-}"; shift || true
sync_harness() {
  mkdir -p "$RIG/verif/harness" "$RIG/verif/replays"
  rsync -a --delete --exclude target /verif/harness/ "$RIG/verif/harness/"
  sed -i "s#/repo/#$RIG/repo/#g" "$RIG/verif/harness/Cargo.toml"
  mkdir -p "$RIG/verif/harness/.cargo"; printf "[net]\noffline = true\n" > "$RIG/verif/harness/.cargo/config.toml"
  cp /verif/known_findings.json "$RIG/verif/"
  rsync -a --delete /verif/replays/known/ "$RIG/verif/replays/known/" 2>/dev/null
  rsync -a --delete /verif/replays/regress/ "$RIG/verif/replays/regress/" 2>/dev/null
}
case "$cmd" in
  setup)
    mkdir -p "$RIG"
    [ -d "$RIG/repo" ] || git -C /repo worktree add --detach "$RIG/repo" HEAD >/dev/null || exit 2
    git -C "$RIG/repo" checkout -q --detach "$(git -C /repo rev-parse HEAD)"
    sync_harness ;;
  sync) git -C "$RIG/repo" checkout -q -- . ; git -C "$RIG/repo" checkout -q --detach "$(git -C /repo rev-parse HEAD)"; sync_harness ;;
  run)
    spec="$1"; shift
    sync_harness
    git -C "$RIG/repo" checkout -q -- .
    case "$spec" in
      none) ;;
      revert:*) c="${spec#revert:}"; git -C /repo diff "$c^" "$c" | git -C "$RIG/repo" apply -R || { echo "mutrig: cannot revert $c" >&2; exit 2; } ;;
      *) git -C "$RIG/repo" apply "$spec" || { echo "mutrig: cannot apply $spec" >&2; exit 2; } ;;
    esac
    ( cd "$RIG/verif/harness" && CARGO_NET_OFFLINE=true CARGO_TARGET_DIR="$RIG/target" cargo build --quiet 2>"$RIG/build.log" ) || { echo "mutrig: build failed"; tail -30 "$RIG/build.log"; git -C "$RIG/repo" checkout -q -- .; exit 2; }
    ( cd "$RIG/verif" && VP_ROOT="$RIG/verif" "$RIG/target/debug/vp" "$@" ); rc=$?
    git -C "$RIG/repo" checkout -q -- .
    exit $rc ;;
  clean)
    git -C /repo worktree remove --force "$RIG/repo" 2>/dev/null
    rm -rf "$RIG" ;;
  *) echo "usage: mutrig.sh setup|run|sync|clean" >&2; exit 2 ;;
esac
