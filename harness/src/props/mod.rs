use crate::PropEntry;

pub mod c01;
pub mod c02;
pub mod c03;
pub mod c04;
pub mod c05;
pub mod c06;
pub mod c07;
pub mod c08;
pub mod c09;
pub mod c10;
pub mod c11;
pub mod c12;
pub mod c13;
pub mod c14;
pub mod c15;
pub mod c16;
pub mod c17;
pub mod c18;
pub mod c19;

pub fn registry() -> Vec<PropEntry> {
    vec![
        PropEntry { id: "C01", run: c01::run, replay: c01::replay },
        PropEntry { id: "C02", run: c02::run, replay: c02::replay },
        PropEntry { id: "C03", run: c03::run, replay: c03::replay },
        PropEntry { id: "C04", run: c04::run, replay: c04::replay },
        PropEntry { id: "C05", run: c05::run, replay: c05::replay },
        PropEntry { id: "C06", run: c06::run, replay: c06::replay },
        PropEntry { id: "C07", run: c07::run, replay: c07::replay },
        PropEntry { id: "C08", run: c08::run, replay: c08::replay },
        PropEntry { id: "C09", run: c09::run, replay: c09::replay },
        PropEntry { id: "C10", run: c10::run, replay: c10::replay },
        PropEntry { id: "C11", run: c11::run, replay: c11::replay },
        PropEntry { id: "C12", run: c12::run, replay: c12::replay },
        PropEntry { id: "C13", run: c13::run, replay: c13::replay },
        PropEntry { id: "C14", run: c14::run, replay: c14::replay },
        PropEntry { id: "C15", run: c15::run, replay: c15::replay },
        PropEntry { id: "C16", run: c16::run, replay: c16::replay },
        PropEntry { id: "C17", run: c17::run, replay: c17::replay },
        PropEntry { id: "C18", run: c18::run, replay: c18::replay },
        PropEntry { id: "C19", run: c19::run, replay: c19::replay },
    ]
}
