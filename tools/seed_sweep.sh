#!/bin/bash
# Re-run every seeded change under /verif/seeded against the CURRENT /repo HEAD and the CURRENT
# checks: each patch.diff is applied to a scratch worktree (tools/mutrig.sh, outside /repo and
# /verif), the quick tier of its property is run, and the exit code is recorded.
#   tools/seed_sweep.sh [pattern]        e.g. tools/seed_sweep.sh 'C0[1-6]-*'
# Output: /verif/seeded/RESULTS.tsv (seed, property, exit code or "no-apply", seconds, first violation)
set -u
cd /verif || exit 2
PAT="${1:-*}"
OUT=/verif/seeded/RESULTS.tsv
tools/mutrig.sh setup || exit 2
touch "$OUT"
for d in seeded/$PAT/; do
  [ -f "$d/patch.diff" ] || continue
  name=$(basename "$d")
  id="${name%%-*}"
  t0=$(date +%s)
  if ! git -C /tmp/mutrig/repo apply --check "/verif/$d/patch.diff" 2>/dev/null; then
    rc="no-apply"; first=""
  else
    log=$(tools/mutrig.sh run "/verif/$d/patch.diff" "$id" --tier quick 2>&1); rc=$?
    first=$(echo "$log" | grep -m1 -E "violation in phase|mutrig:" | cut -c1-200 | tr '\t' ' ')
  fi
  t1=$(date +%s)
  grep -v "^$name	" "$OUT" > "$OUT.tmp"; mv "$OUT.tmp" "$OUT"
  printf '%s\t%s\t%s\t%s\t%s\n' "$name" "$id" "$rc" "$((t1-t0))" "$first" >> "$OUT"
  echo "$name $id rc=$rc $((t1-t0))s $first"
done
sort -o "$OUT" "$OUT"
