#!/bin/bash
# Apply every kill mutation under /verif/mutations to a scratch worktree of /repo (tools/mutrig.sh,
# outside /repo and /verif), run the quick tier of the property named by the file's prefix against
# it and record whether the check reported a violation.
#   tools/kill_sweep.sh [pattern]      e.g. tools/kill_sweep.sh 'c0[1-6]_*'
# Output: /verif/mutations/RESULTS.tsv (name, property, exit code, seconds, first violation line)
set -u
cd /verif || exit 2
PAT="${1:-*}"
OUT=/verif/mutations/RESULTS.tsv
tools/mutrig.sh setup || exit 2
touch "$OUT"
for f in mutations/$PAT.diff; do
  [ -f "$f" ] || continue
  name=$(basename "$f" .diff)
  id=$(echo "${name%%_*}" | tr a-z A-Z)
  t0=$(date +%s)
  log=$(tools/mutrig.sh run "/verif/$f" "$id" --tier quick 2>&1); rc=$?
  t1=$(date +%s)
  first=$(echo "$log" | grep -m1 -E "violation in phase|mutrig:" | cut -c1-220 | tr '\t' ' ')
  grep -v "^$name	" "$OUT" > "$OUT.tmp"; mv "$OUT.tmp" "$OUT"
  printf '%s\t%s\t%s\t%s\t%s\n' "$name" "$id" "$rc" "$((t1-t0))" "$first" >> "$OUT"
  echo "$name $id rc=$rc $((t1-t0))s $first"
done
sort -o "$OUT" "$OUT"
