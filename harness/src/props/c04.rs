//! C04 — HTTP/1 connections always progress: no lost wake-ups, all bytes flushed.
//!
//! The C02 pipelines and handler/body programs are run against an *adversarial* socket: writes
//! accept 0 < k <= n bytes or return `Pending`, credit is refilled (closed loop) only after the
//! writer was refused, `poll_flush` blocks, reads are segmented with `Pending` between segments,
//! the peer half-closes or resets at generated points. The executor is tokio's current-thread
//! scheduler under a paused clock: a task is polled only when it was woken, so a missing waker
//! registration is a stall, and a stall is a deterministic virtual-time deadline miss.
//!
//! Oracles: (i) the connection future completes (virtual deadline) and every response byte is on
//! the wire by a bound derived from the case's own delays (a wake-up that is lost but later
//! rescued by an unrelated event still fails); (ii) the bytes the socket accepted decode, with the
//! independent parser, to exactly what the handler programs produced — exactly once and in order
//! across partial writes (the C02 oracle); (iii) nothing is written after `poll_shutdown`.

use proptest::prelude::*;
use serde::{Deserialize, Serialize};

use super::c02;
use crate::{
    h1engine::{BodyKind, ConnEnd, Outcome, ReadProg, Scenario},
    httpwire,
    runner::{self, explore, Report, RunCfg, Verdict},
    simnet::{PeerOp, WSched},
    util,
};

#[derive(Debug, Clone, Serialize, Deserialize, PartialEq, Eq)]
pub enum Fault {
    None,
    /// the peer sends only the first `sel`-selected prefix of the stream, then half-closes
    EofAt(u16),
    /// same, then resets
    ResetAt(u16),
    /// everything is sent; the peer resets `ms` later without reading further
    ResetAfter(u16),
    /// everything is sent; the peer reads all responses, then half-closes `ms` later (a client
    /// that closes when it has its answers — possibly while the server lingers)
    EofAfterResponses(u16),
}

#[derive(Debug, Clone, Serialize, Deserialize)]
pub struct Case {
    pub base: c02::Case,
    pub w: WSched,
    pub fault: Fault,
    /// client_disconnect_timeout (0 = disabled)
    #[serde(default)]
    pub disc_ms: u32,
    /// bytes that are not a request head, sent right after the valid pipeline (same segment as its
    /// end): the server owes every response to the valid requests and then a complete 400
    #[serde(default)]
    pub garbage_tail: Option<u8>,
}

fn wsched() -> impl Strategy<Value = WSched> {
    (
        prop_oneof![Just(0u32), Just(1u32), Just(17u32), Just(300u32), Just(5000u32)],
        prop_oneof![
            1 => Just(vec![]),
            4 => proptest::collection::vec(
                (
                    prop_oneof![3 => Just(0u16), 3 => 1u16..5, 1 => 5u16..50],
                    prop_oneof![2 => Just(1u32), 3 => 2u32..64, 3 => 64u32..5000, 1 => 5000u32..40_000],
                ),
                1..5
            ),
        ],
        prop_oneof![
            2 => Just(vec![]),
            3 => proptest::collection::vec(
                prop_oneof![2 => Just(1u32), 3 => 2u32..16, 3 => 16u32..1000, 2 => 1000u32..100_000],
                1..4
            ),
        ],
        prop_oneof![
            1 => Just(vec![]),
            1 => proptest::collection::vec((0u8..3, prop_oneof![1 => Just(0u16), 2 => 1u16..20]), 1..3),
        ],
        50u32..400,
    )
        .prop_map(|(init_credit, drip, max_write, flush, budget)| WSched {
            init_credit,
            drip,
            max_write,
            flush,
            budget,
        })
}

fn case_strategy(faults: bool) -> impl Strategy<Value = Case> {
    (
        c02::case_strategy_with(200_000),
        wsched(),
        if faults {
            prop_oneof![
                4 => any::<u16>().prop_map(Fault::EofAt),
                3 => any::<u16>().prop_map(Fault::ResetAt),
                1 => (0u16..50).prop_map(Fault::ResetAfter),
            ]
            .boxed()
        } else {
            prop_oneof![
                3 => Just(Fault::None),
                1 => prop_oneof![Just(0u16), 1u16..100, 100u16..1500].prop_map(Fault::EofAfterResponses),
            ]
            .boxed()
        },
        prop_oneof![2 => Just(0u32), 1 => Just(300u32), 1 => Just(1000u32)],
    )
        .prop_map(|(base, w, fault, disc_ms)| Case { base, w, fault, disc_ms, garbage_tail: None })
}

/// The last request is a chunked upload larger than payload buffer + read buffer (32 KiB +
/// 128 KiB) whose handler keeps the payload unread (or reads a little, or drops it at once) for
/// long enough that both buffers fill and reading stops, then answers: the dropped body has to be
/// drained from the socket, which takes a wake-up nobody but the dispatcher can provide.
fn upload_case_strategy() -> impl Strategy<Value = Case> {
    (
        c02::case_strategy_with(3000),
        wsched(),
        proptest::collection::vec(prop_oneof![1 => 1u32..3000, 3 => 20_000u32..70_000], 4..9),
        170_000u32..420_000,
        prop_oneof![3 => Just(ReadProg::Hold), 1 => Just(ReadProg::DropNow), 1 => (1u32..50_000).prop_map(ReadProg::UpTo)],
        prop_oneof![1 => Just(0u16), 4 => 5u16..120],
        prop_oneof![2 => Just(0u32), 1 => Just(300u32)],
        any::<u64>(),
        proptest::bool::weighted(0.3),
    )
        .prop_map(|(mut base, mut w, lens, total, read, delay, disc_ms, seed, benign)| {
            if base.ka == crate::h1engine::KaCfg::Disabled {
                base.ka = crate::h1engine::KaCfg::Timeout(5000);
            }
            base.expect_reject = false;
            let last = base.reqs.len() - 1;
            // chunk sizes cycle through `lens` until `total` bytes are reached
            let mut chunks = vec![];
            let mut sum = 0u32;
            let mut i = 0;
            while sum < total {
                let len = lens[i % lens.len()].min(total - sum).max(1);
                chunks.push(crate::httpwire::ChunkSpec { len, ext: None, upper: i % 2 == 0, zeros: 0, lws: 0 });
                sum += len;
                i += 1;
            }
            {
                let r = &mut base.reqs[last];
                r.method = "POST".into();
                r.version = 1;
                r.expect = false;
                r.conn = crate::httpwire::ConnOpt::None;
                r.framing = crate::httpwire::Framing::Chunked { chunks, last_ext: None, te_case: 0 };
                r.body_seed = seed;
                r.headers.retain(|(n, _)| !n.eq_ignore_ascii_case("content-length") && !n.eq_ignore_ascii_case("transfer-encoding"));
                let p = &mut base.progs[last];
                p.read = read;
                p.pre_delay_ms = delay;
                p.read_pace_ms = 0;
                p.fail = false;
                p.resp.force_close = false;
                if matches!(p.resp.body.kind, BodyKind::Echo) {
                    p.resp.body.kind = BodyKind::Bytes;
                }
                p.resp.body.fail_at_end = false;
            }
            base.seg = crate::gen::SegSpec::whole();
            base.wait_continue = false;
            // the peer waits for the server's close (keep-alive expiry) before it half-closes
            base.eof_after = false;
            c02::normalize(&mut base);
            if benign {
                w = WSched { init_credit: 0, drip: vec![], max_write: vec![], flush: vec![], budget: 0 };
            }
            Case { base, w, fault: Fault::None, disc_ms, garbage_tail: None }
        })
}

/// Valid pipeline followed by a malformed head, against the adversarial socket.
fn garbage_case_strategy() -> impl Strategy<Value = Case> {
    (c02::case_strategy_with(20_000), wsched(), any::<u8>(), prop_oneof![2 => Just(0u32), 1 => Just(300u32)]).prop_map(|(mut base, w, g, disc_ms)| {
        if base.ka == crate::h1engine::KaCfg::Disabled {
            base.ka = crate::h1engine::KaCfg::Timeout(5000);
        }
        base.expect_reject = false;
        base.wait_continue = false;
        base.eof_after = false;
        for r in base.reqs.iter_mut() {
            r.expect = false;
        }
        // a plain last request, so that every generated one is in a non-closing position
        base.reqs.push(crate::httpwire::ReqSpec::get("/last"));
        base.progs.push(crate::h1engine::HandlerProg::simple());
        base.arrival.push(0);
        c02::normalize(&mut base);
        Case { base, w, fault: Fault::None, disc_ms, garbage_tail: Some(g) }
    })
}

const GARBAGE: [&[u8]; 6] = [
    b"\x00\x01garbage\r\n\r\n",
    b"GET / HTTP/9.9\r\n\r\n",
    b"GET /a b c HTTP/1.1\r\n\r\n",
    b"POST /x HTTP/1.1\r\nContent-Length: 5\r\nContent-Length: 6\r\n\r\nhello!",
    b"POST /x HTTP/1.1\r\nTransfer-Encoding: chunked\r\nContent-Length: 3\r\n\r\n3\r\nabc\r\n0\r\n\r\n",
    b"G\xffT / HTTP/1.1\r\nHost: x\r\n\r\n",
];

/// upper bound (virtual ms) on the handler-side delays of the requests that were dispatched
fn program_delay_ms(case: &c02::Case, out: &Outcome) -> u64 {
    let mut total = 0u64;
    let handled: Vec<usize> = (0..case.reqs.len())
        .filter(|&i| !(case.expect_reject && case.reqs[i].expect))
        .collect();
    for (k, r) in out.reqs.iter().enumerate() {
        let Some(&i) = handled.get(k) else { continue };
        let p = &case.progs[i];
        total += p.pre_delay_ms as u64 + p.post_delay_ms as u64;
        total += (r.chunks as u64 + 1) * p.read_pace_ms as u64;
        total += p.resp.body.chunks.iter().map(|c| c.delay_ms as u64).sum::<u64>();
    }
    total += case.reqs.iter().filter(|r| r.expect).count() as u64 * (case.expect_delay_ms as u64 + 1);
    total
}

fn apply_fault(sc: &mut Scenario, fault: &Fault) -> usize {
    let len = sc.input.len();
    match fault {
        Fault::None | Fault::EofAfterResponses(_) => len,
        Fault::ResetAfter(ms) => {
            // replace the trailing "wait for close, eof" / "eof" by a reset
            while matches!(sc.peer_ops.last(), Some(PeerOp::Eof | PeerOp::WaitClose(_))) {
                sc.peer_ops.pop();
            }
            if *ms > 0 {
                sc.peer_ops.push(PeerOp::Sleep(*ms as u32));
            }
            sc.peer_ops.push(PeerOp::Reset);
            len
        }
        Fault::EofAt(sel) | Fault::ResetAt(sel) => {
            let k = util::pick_idx(*sel, len + 1);
            let mut ops = vec![];
            for op in sc.peer_ops.drain(..) {
                match op {
                    PeerOp::Send(a, b) => {
                        if a >= k {
                            break;
                        }
                        if b > k {
                            ops.push(PeerOp::Send(a, k));
                            break;
                        }
                        ops.push(PeerOp::Send(a, b));
                    }
                    PeerOp::Eof | PeerOp::WaitClose(_) => break,
                    other => ops.push(other),
                }
            }
            // drop trailing waits that have nothing to deliver after them
            while matches!(ops.last(), Some(PeerOp::Sleep(_) | PeerOp::Yield | PeerOp::WaitOut(..))) {
                ops.pop();
            }
            ops.push(if matches!(fault, Fault::EofAt(_)) { PeerOp::Eof } else { PeerOp::Reset });
            sc.peer_ops = ops;
            k
        }
    }
}

pub fn run_case(cfg: &RunCfg, case: &Case) -> Verdict {
    let w = case.w.clone();
    let base = &case.base;
    let strict = cfg.strict;
    let halfclose_listed = !strict && cfg.kf.active("C01", "half-close-discards-buffered-body");

    if let Some(g) = case.garbage_tail {
        return run_garbage(cfg, case, g, halfclose_listed);
    }

    if matches!(case.fault, Fault::None | Fault::EofAfterResponses(_)) {
        // ---- schedules: the full C02 oracle on the adversarial socket, plus progress
        let disc_ms = case.disc_ms;
        let fault = case.fault.clone();
        let n = base.reqs.len();
        let is_head: Vec<bool> = base.reqs.iter().map(|r| r.is_head()).collect();
        let (mut v, out) = c02::run_case_ext(
            cfg,
            base,
            strict,
            &|sc: &mut Scenario| {
                sc.wsched = Some(w.clone());
                sc.cfg.disc_timeout_ms = disc_ms;
                if let Fault::EofAfterResponses(ms) = fault {
                    while matches!(sc.peer_ops.last(), Some(PeerOp::Eof | PeerOp::WaitClose(_))) {
                        sc.peer_ops.pop();
                    }
                    sc.is_head = is_head.clone();
                    sc.peer_ops.push(PeerOp::WaitResps(n, 20_000));
                    if ms > 0 {
                        sc.peer_ops.push(PeerOp::Sleep(ms as u32));
                    }
                    sc.peer_ops.push(PeerOp::Eof);
                }
            },
            false,
        );
        if v.excluded.is_some() {
            return v;
        }
        let Some(out) = out else { return v };
        v.classes.retain(|c| *c != "stalled-not-judged-here");
        v = classify(v, case, &out);
        if v.is_fail() {
            return v;
        }
        // a half-close that arrives after the responses were read arrives while the server
        // lingers / idles: it must end the connection at once, not at the linger deadline
        let slack = if matches!(case.fault, Fault::EofAfterResponses(ms) if ms > 0) { 0 } else { case.disc_ms };
        return progress_checks(v, base, &out, true, slack);
    }

    // ---- faults: truncated stream + half-close / reset
    for i in 0..base.reqs.len() {
        if !strict && c02_known(cfg, base, i) {
            return Verdict::excluded("304-with-body-writes-body-bytes");
        }
    }
    let (mut sc, _starts) = c02::build_scenario(base, None, halfclose_listed);
    sc.wsched = Some(w);
    sc.cfg.disc_timeout_ms = case.disc_ms;
    let rendered = httpwire::render_pipeline(&base.reqs);
    let k = apply_fault(&mut sc, &case.fault);
    let complete_reqs = rendered.reqs.iter().take_while(|r| r.end <= k).count();
    if halfclose_listed
        && matches!(case.fault, Fault::EofAt(_))
        && base.reqs.iter().any(|r| r.body_len() >= 32_768)
    {
        return Verdict::excluded("half-close-discards-buffered-body");
    }
    let out = crate::h1engine::run(sc);
    let mut v = classify(Verdict::ok(), case, &out).class("fault");
    if let ConnEnd::Panicked(p) = &out.end {
        return v.fail_with(format!("panic in connection task: {p}"));
    }
    v = progress_checks(v, base, &out, false, case.disc_ms);
    if v.is_fail() {
        return v;
    }
    let n = base.reqs.len();
    let is_head: Vec<bool> = base.reqs.iter().map(|r| r.is_head()).collect();
    let parsed = httpwire::parse_responses(&out.out, &is_head, out.closed());
    if let Some(e) = &parsed.error {
        return v.fail_with(format!("response stream is not a sequence of self-delimited messages: {e}"));
    }
    if parsed.responses.len() > n {
        return v.fail_with(format!("{} responses for {} requests", parsed.responses.len(), n));
    }
    // every complete response to a completely received request is the program's response
    let mut ended_early = false;
    for (i, r) in parsed.responses.iter().enumerate().take(complete_reqs) {
        if !r.complete {
            ended_early = true;
            break;
        }
        let e = c02::expected_for(base, i, &base.reqs[i].body());
        if e.must_terminate || e.may_complete {
            ended_early = true;
            break;
        }
        // a close-delimited body "ends" wherever a reset tore the connection down
        if r.framing == httpwire::RespFraming::ToClose && !matches!(case.fault, Fault::EofAt(_)) {
            ended_early = true;
            break;
        }
        if let Err(msg) = c02::check_response(i, &base.reqs[i], &e, r, out.closed()) {
            return v.fail_with(format!("(fault {:?} at offset {k}) {msg}", case.fault));
        }
        if r.announces_close() {
            ended_early = true;
        }
    }
    // a half-close does not excuse dropping responses to requests that were completely received
    if matches!(case.fault, Fault::EofAt(_)) && !ended_early {
        let handled: Vec<usize> = (0..n).filter(|&i| !(base.expect_reject && base.reqs[i].expect)).collect();
        let due = complete_reqs;
        let all_returned = out
            .reqs
            .iter()
            .take(handled.iter().filter(|&&i| i < due).count())
            .all(|r| r.t_return.is_some());
        let any_terminating = (0..due).any(|i| {
            let e = c02::expected_for(base, i, &base.reqs[i].body());
            e.must_terminate || e.may_complete
        });
        let written = parsed.responses.iter().filter(|r| r.complete).count();
        // listed C02 finding: a failing response body (here: the echo of the truncated request)
        // tears the connection down together with complete responses that were still buffered
        if all_returned
            && !any_terminating
            && written < due
            && !cfg.strict
            && cfg.kf.active("C02", "body-error-discards-buffered-responses")
            && matches!(out.end, ConnEnd::Err(_))
            && (out.resps.iter().skip(due).any(|r| r.errored)
                || (due..n.min(out.reqs.len())).any(|i| {
                    let e = c02::expected_for(base, i, &base.reqs[i].body());
                    e.must_terminate || e.may_complete
                }))
        {
            return v.kf_skip("body-error-discards-buffered-responses");
        }
        if all_returned && !any_terminating && written < due {
            return v.fail_with(format!(
                "peer half-closed after sending {due} complete requests (+{} bytes of the next) but only {} complete responses were written (connection end {:?})",
                k - rendered.reqs.get(due.saturating_sub(1)).map(|r| r.end).unwrap_or(0).min(k),
                parsed.responses.iter().filter(|r| r.complete).count(),
                out.end
            ));
        }
    }
    v
}

/// Valid pipeline + malformed head on the adversarial socket: every response to the valid
/// requests and then a complete 4xx must reach the wire before the connection ends.
fn run_garbage(cfg: &RunCfg, case: &Case, g: u8, halfclose_listed: bool) -> Verdict {
    let base = &case.base;
    let n = base.reqs.len();
    for i in 0..n {
        if !cfg.strict && c02_known(cfg, base, i) {
            return Verdict::excluded("304-with-body-writes-body-bytes");
        }
    }
    let (mut sc, _starts) = c02::build_scenario(base, None, halfclose_listed);
    sc.wsched = Some(case.w.clone());
    sc.cfg.disc_timeout_ms = case.disc_ms;
    let tail = GARBAGE[g as usize % GARBAGE.len()];
    let old_len = sc.input.len();
    sc.input.extend_from_slice(tail);
    let new_len = sc.input.len();
    for op in sc.peer_ops.iter_mut().rev() {
        if let PeerOp::Send(_, b) = op {
            if *b == old_len {
                *b = new_len;
            }
            break;
        }
    }
    let out = crate::h1engine::run(sc);
    let mut v = classify(Verdict::ok(), case, &out).class("malformed-tail");
    if let ConnEnd::Panicked(p) = &out.end {
        return v.fail_with(format!("panic in connection task: {p}"));
    }
    v = progress_checks(v, base, &out, true, case.disc_ms);
    if v.is_fail() {
        return v;
    }
    let mut is_head: Vec<bool> = base.reqs.iter().map(|r| r.is_head()).collect();
    is_head.push(false);
    let parsed = httpwire::parse_responses(&out.out, &is_head, out.closed());
    if let Some(e) = &parsed.error {
        return v.fail_with(format!("response stream is not a sequence of self-delimited messages: {e}"));
    }
    for i in 0..n {
        let e = c02::expected_for(base, i, &base.reqs[i].body());
        if e.must_terminate || e.may_complete {
            return v.class("terminating-body-before-tail");
        }
        let Some(r) = parsed.responses.get(i) else {
            return v.fail_with(format!(
                "response {i} of {n} is missing: the valid requests were completely received before the malformed head (connection end {:?}, {} bytes written)",
                out.end,
                out.out.len()
            ));
        };
        if !r.complete {
            return v.fail_with(format!("response {i} of {n} was cut short ({} bytes written, connection end {:?}) although its request preceded the malformed head", out.out.len(), out.end));
        }
        if let Err(msg) = c02::check_response(i, &base.reqs[i], &e, r, out.closed()) {
            return v.fail_with(format!("(malformed tail) {msg}"));
        }
        if r.announces_close() {
            return v.class("closing-response-before-tail");
        }
    }
    match parsed.responses.get(n) {
        None => v.fail_with(format!("no error response to the malformed head was written (connection end {:?})", out.end)),
        Some(r) if !r.complete => v.fail_with(format!("the error response to the malformed head was cut short (status {}, connection end {:?})", r.status, out.end)),
        Some(r) if !(400..500).contains(&r.status) => v.fail_with(format!("malformed head answered with status {}", r.status)),
        Some(_) => v.nt(true),
    }
}

fn c02_known(cfg: &RunCfg, base: &c02::Case, i: usize) -> bool {
    c02::pair_known(cfg, &base.reqs[i], &base.progs[i]).is_some()
}

fn classify(v: Verdict, case: &Case, out: &Outcome) -> Verdict {
    let base = &case.base;
    let backpressure = base.reqs.iter().zip(&base.progs).any(|(r, p)| {
        r.body_len() > 32_768 && (p.read_pace_ms > 0 || p.pre_delay_ms > 0 || !matches!(p.read, ReadProg::All))
    });
    let adversarial = out.partial_writes > 0 && out.write_pending > 0 && out.read_pending_with_more > 0;
    v.nt(adversarial || backpressure)
        .class_if(out.partial_writes > 0, "partial-writes")
        .class_if(out.write_pending > 0, "write-pending")
        .class_if(out.flush_pending > 0, "flush-pending")
        .class_if(out.read_pending_with_more > 0, "read-pending-with-more-to-come")
        .class_if(backpressure, "request-body-backpressure")
        .class_if(base.reqs.iter().any(|r| r.body_len() > 131_072), "body-over-read-buffer")
        .class_if(base.progs.iter().any(|p| matches!(p.resp.body.kind, BodyKind::Echo)), "echo-proxy")
        .class_if(base.progs.iter().any(|p| p.resp.body.chunks.iter().any(|c| c.pending > 0)), "body-self-wake-pending")
        .class_if(matches!(case.fault, Fault::EofAt(_)), "half-close-mid-stream")
        .class_if(matches!(case.fault, Fault::EofAfterResponses(_)), "half-close-after-responses")
        .class_if(case.disc_ms > 0, "disconnect-timeout-set")
        .class_if(matches!(case.fault, Fault::ResetAt(_) | Fault::ResetAfter(_)), "reset")
        .class_if(case.w.is_benign(), "benign-socket")
}

/// Termination, timeliness, nothing after shutdown.
fn progress_checks(v: Verdict, base: &c02::Case, out: &Outcome, eof_script: bool, disc_ms: u32) -> Verdict {
    if out.write_after_shutdown > 0 {
        return v.fail_with(format!(
            "{} bytes were written after poll_shutdown had returned Ready",
            out.write_after_shutdown
        ));
    }
    if matches!(out.end, ConnEnd::Stalled) {
        return v.fail_with(format!(
            "stall: the connection task never completed although the peer finished its script (peer done at {:?} ms, {} of {} input bytes taken, {} bytes written, handlers returned {}/{}, last write at {:?} ms)",
            out.peer_done_at,
            out.taken,
            out.input_len,
            out.out.len(),
            out.reqs.iter().filter(|r| r.t_return.is_some()).count(),
            out.reqs.len(),
            out.out_log.last().map(|l| l.0)
        ));
    }
    // timeliness of the last response byte: input arrival + the programs' own delays + the time
    // the socket refused writes + slack. A lost wake-up that is only rescued by the keep-alive
    // timer, the peer's late EOF or another unrelated event exceeds this.
    let t_last_send = out.send_log.iter().map(|l| l.0).max().unwrap_or(0);
    let bound = t_last_send + program_delay_ms(base, out) + out.blocked_ms + 150;
    if let Some((t_last_out, _)) = out.out_log.last() {
        if *t_last_out > bound {
            return v.fail_with(format!(
                "response bytes delayed: last byte written at {t_last_out} ms but all input had arrived by {t_last_send} ms, the programs' own delays sum to {} ms and the socket refused writes for {} ms in total (bound {bound} ms): progress depended on an unrelated later event",
                program_delay_ms(base, out),
                out.blocked_ms
            ));
        }
    }
    // completion: once the peer has half-closed and everything is written the task must end
    if eof_script {
        // (keep-alive expiry can only end the connection earlier than the peer's half-close does)
        if let Some(pd) = out.peer_done_at {
            // (with a disconnect timeout the server may linger for that long after a response to
            // an unread body when the peer's half-close was seen before lingering started)
            let limit = pd.max(bound) + if disc_ms > 0 { disc_ms as u64 + 500 } else { 0 } + 200;
            if out.end_at > limit {
                return v.fail_with(format!(
                    "connection task completed at {} ms, long after the peer finished (at {pd} ms) and all work was done (bound {bound} ms)",
                    out.end_at
                ));
            }
        }
    }
    v
}

pub fn run(cfg: &RunCfg) -> Report {
    let mut rep = Report::new("C04");
    rep.level = "fault_enumeration";
    rep.rule = "cases = C02 pipeline (1-5 requests, bodies up to 200 KB, handler/body programs with delays, self-wake Pending patterns, slow/partial/dropping body consumers, echo) x adversarial socket (initial credit 0..5000, closed-loop credit drip refilled only after a refused write with delay 0..50 ms and 1..40000 bytes, per-call write caps 1..100000, poll_flush blocked for 0..20 ms every 1-3 calls) x read segmentation with Pending x fault (none / prefix then half-close / prefix then reset / reset after all input); \
                phase uploads: last request = chunked upload of 170-420 KB held / partly read / dropped by its handler for 0-120 ms; phase malformed-tail: valid pipeline + one of 6 malformed heads in the same segment (every valid response and a complete 4xx are owed); \
                non-trivial = at least one partial write and one refused write and one read that returned Pending with more input to come, or request-body back-pressure engaged (body > 32 KiB with a slow or partial consumer); distinct by hash of the case"
        .into();
    rep.assumptions = vec![
        "wake-driven executor: tokio current-thread runtime with paused clock; the scripted socket wakes exactly the last waker it was given and never spuriously".into(),
        "timeliness bound = last input arrival + sum of the case's own handler/body/expect delays + total time the socket refused writes or flushes + 150 ms".into(),
        "after the adversarial budget (50-400 refusals) the socket becomes benign, so work is always possible eventually".into(),
        "fault cases use a reduced oracle: termination, nothing after shutdown, every complete response to a completely received request is the program's, a half-close does not drop responses to completely received requests".into(),
    ];
    runner::replay_pinned(&mut rep, cfg, &replay);
    runner::replay_regress(&mut rep, cfg, &replay);
    explore(&mut rep, cfg, "schedules", cfg.cases(150_000, 3_000_000), || case_strategy(false), |c| run_case(cfg, c));
    explore(&mut rep, cfg, "faults", cfg.cases(100_000, 2_000_000), || case_strategy(true), |c| run_case(cfg, c));
    explore(&mut rep, cfg, "uploads", cfg.cases(4_000, 60_000), upload_case_strategy, |c| run_case(cfg, c).class("big-upload-held"));
    explore(&mut rep, cfg, "malformed-tail", cfg.cases(40_000, 800_000), garbage_case_strategy, |c| run_case(cfg, c));
    rep
}

pub fn replay(cfg: &RunCfg, _phase: &str, case: &serde_json::Value) -> Result<Verdict, String> {
    let c: Case = runner::from_json(case)?;
    Ok(run_case(cfg, &c))
}
