//! C09 — App routing: first registered match, exactly its parameters.
//!
//! A route table (nested scopes with static/dynamic/regex prefixes, resources with single or list
//! patterns incl. tails, method routes, header/host/method guards with Not/Any, scope and app
//! default services, `app_data` markers at every level) is generated as an AST, built into a real
//! `App` and into a reference router written here (committed descent in registration order, using
//! C10's reference pattern matcher and reference percent-decoder). Requests are built from the
//! table's own patterns with perturbations; handler identity, match_info and the innermost marker
//! reported by the real app must equal the model's.

use actix_web::{
    guard::{self, Guard},
    http::{Method, StatusCode},
    test, web, App, HttpRequest, HttpResponse, Resource, Scope,
};
use proptest::prelude::*;
use serde::{Deserialize, Serialize};

use super::c10::{self, Pat, Seg};
use crate::{
    runner::{self, explore, Report, RunCfg, Verdict},
    streams::{self, RunEnd},
};

#[derive(Debug, Clone, Copy, PartialEq, Eq)]
struct Marker(u32);

#[derive(Debug, Clone, Serialize, Deserialize, PartialEq, Eq, Hash)]
pub enum G {
    /// header x-g equals "1" / "2"
    Header(u8),
    /// host a.example / b.example
    Host(u8),
    /// GET / POST / PUT
    Method(u8),
    Not(Box<G>),
    Any(Vec<G>),
    /// `fn_guard(|ctx| ctx.app_data::<Marker>() == Some(v))`: the innermost Marker registration
    /// that is visible when the guard runs (a scope's / resource's own data is injected when its
    /// service is called, i.e. after its own guards but before the guards of its routes)
    DataIs(u32),
}

#[derive(Debug, Clone, Serialize, Deserialize, PartialEq, Eq, Hash)]
pub struct RouteSpec {
    /// None = any method
    pub method: Option<u8>,
    pub guards: Vec<G>,
    pub id: u32,
}

#[derive(Debug, Clone, Serialize, Deserialize, PartialEq, Eq, Hash)]
pub enum Node {
    Scope { prefix: Pat, guards: Vec<G>, data: Option<u32>, default: Option<u32>, children: Vec<Node> },
    Resource { pats: Vec<Pat>, guards: Vec<G>, data: Option<u32>, routes: Vec<RouteSpec>, default: Option<u32> },
    /// `App::route(path, route)` / `Scope::route(path, route)`: documented to register a resource
    /// for the path with the route's guards hoisted onto the resource (so that the same path can
    /// be registered several times with different guards)
    RouteShortcut { pat: Pat, route: RouteSpec },
}

#[derive(Debug, Clone, Serialize, Deserialize, PartialEq, Eq, Hash)]
pub struct ReqSpec {
    pub method: u8,
    /// which pattern chain the path is derived from + perturbation
    pub sels: Vec<u16>,
    pub xg: Option<u8>,
    pub host: Option<u8>,
    /// explicit path override (shrunk / replay form)
    pub path: Option<String>,
}

#[derive(Debug, Clone, Serialize, Deserialize)]
pub struct Case {
    pub children: Vec<Node>,
    pub app_default: Option<u32>,
    pub reqs: Vec<ReqSpec>,
}

const METHODS: [&str; 3] = ["GET", "POST", "PUT"];
const HOSTS: [&str; 2] = ["a.example", "b.example"];
const XG: [&str; 2] = ["1", "2"];

// ------------------------------------------------------------------------------------------
// building the real app
// ------------------------------------------------------------------------------------------

fn mk_guard(g: &G) -> Box<dyn Guard> {
    match g {
        G::Header(v) => Box::new(guard::Header("x-g", XG[*v as usize % 2])),
        G::Host(h) => Box::new(guard::Host(HOSTS[*h as usize % 2])),
        G::Method(m) => Box::new(guard::Method(Method::from_bytes(METHODS[*m as usize % 3].as_bytes()).unwrap())),
        G::DataIs(v) => {
            let v = *v;
            Box::new(guard::fn_guard(move |ctx| ctx.app_data::<Marker>().map(|m| m.0) == Some(v)))
        }
        G::Not(inner) => Box::new(guard::Not(GuardBox(mk_guard(inner)))),
        G::Any(list) => {
            let mut it = list.iter();
            let first = it.next().map(mk_guard).unwrap_or_else(|| Box::new(guard::fn_guard(|_| false)));
            let mut any = guard::Any(GuardBox(first));
            for g in it {
                any = any.or(GuardBox(mk_guard(g)));
            }
            Box::new(any)
        }
    }
}

struct GuardBox(Box<dyn Guard>);
impl Guard for GuardBox {
    fn check(&self, ctx: &guard::GuardContext<'_>) -> bool {
        self.0.check(ctx)
    }
}

async fn report(id: u32, req: HttpRequest) -> HttpResponse {
    let mut mi: Vec<(String, String)> = req.match_info().iter().map(|(k, v)| (k.to_string(), v.to_string())).collect();
    mi.sort();
    HttpResponse::Ok().body(format!("id={id};marker={:?};mi={:?}", req.app_data::<Marker>().map(|m| m.0), mi))
}

fn name_base_of(depth_names: usize) -> usize {
    depth_names
}

fn build_resource(pats: &[Pat], guards: &[G], data: Option<u32>, routes: &[RouteSpec], default: Option<u32>, base: usize, at_root: bool) -> Resource {
    let texts: Vec<String> = pats
        .iter()
        .map(|p| {
            let t = p.text_from(base);
            if at_root && t.is_empty() {
                "/".to_string()
            } else {
                t
            }
        })
        .collect();
    let mut r = if texts.len() == 1 { web::resource(texts[0].as_str()) } else { web::resource(texts) };
    for g in guards {
        r = r.guard(GuardBox(mk_guard(g)));
    }
    if let Some(d) = data {
        r = r.app_data(Marker(d));
    }
    for rt in routes {
        let id = rt.id;
        let mut route = match rt.method {
            Some(m) => web::method(Method::from_bytes(METHODS[m as usize % 3].as_bytes()).unwrap()),
            None => web::route(),
        };
        for g in &rt.guards {
            route = route.guard(GuardBox(mk_guard(g)));
        }
        r = r.route(route.to(move |req: HttpRequest| report(id, req)));
    }
    if let Some(id) = default {
        r = r.default_service(web::to(move |req: HttpRequest| report(id, req)));
    }
    r
}

fn build_route(rt: &RouteSpec) -> actix_web::Route {
    let id = rt.id;
    let mut route = match rt.method {
        Some(m) => web::method(Method::from_bytes(METHODS[m as usize % 3].as_bytes()).unwrap()),
        None => web::route(),
    };
    for g in &rt.guards {
        route = route.guard(GuardBox(mk_guard(g)));
    }
    route.to(move |req: HttpRequest| report(id, req))
}

fn shortcut_path(pat: &Pat, base: usize, at_root: bool) -> String {
    let t = pat.text_from(base);
    if at_root && t.is_empty() {
        "/".to_string()
    } else {
        t
    }
}

fn build_scope(prefix: &Pat, guards: &[G], data: Option<u32>, default: Option<u32>, children: &[Node], base: usize) -> Scope {
    let mut s = web::scope(&prefix.text_from(base));
    for g in guards {
        s = s.guard(GuardBox(mk_guard(g)));
    }
    if let Some(d) = data {
        s = s.app_data(Marker(d));
    }
    if let Some(id) = default {
        s = s.default_service(web::to(move |req: HttpRequest| report(id, req)));
    }
    let nb = base + prefix.n_dyn();
    for c in children {
        match c {
            Node::Scope { prefix, guards, data, default, children } => s = s.service(build_scope(prefix, guards, *data, *default, children, nb)),
            Node::Resource { pats, guards, data, routes, default } => s = s.service(build_resource(pats, guards, *data, routes, *default, nb, false)),
            Node::RouteShortcut { pat, route } => s = s.route(&shortcut_path(pat, nb, false), build_route(route)),
        }
    }
    s
}

// ------------------------------------------------------------------------------------------
// the reference router
// ------------------------------------------------------------------------------------------

struct Rq<'a> {
    method: &'a str,
    xg: Option<&'a str>,
    host: Option<&'a str>,
}

fn eval_guard(g: &G, r: &Rq, marker: Option<u32>) -> bool {
    match g {
        G::Header(v) => r.xg == Some(XG[*v as usize % 2]),
        G::Host(h) => r.host == Some(HOSTS[*h as usize % 2]),
        G::Method(m) => r.method == METHODS[*m as usize % 3],
        G::DataIs(v) => marker == Some(*v),
        G::Not(i) => !eval_guard(i, r, marker),
        G::Any(l) => l.iter().any(|g| eval_guard(g, r, marker)),
    }
}

#[derive(Debug, PartialEq)]
enum Routed {
    Handler { id: u32, marker: Option<u32>, mi: Vec<(String, String)> },
    NotFound,
    MethodNotAllowed,
}

fn route_level(children: &[Node], default: Option<u32>, app_default: Option<u32>, rem: &str, r: &Rq, mi: &mut Vec<(String, String)>, marker: Option<u32>, base: usize, at_root: bool) -> Routed {
    for c in children {
        match c {
            Node::Scope { prefix, guards, data, default: d2, children } => {
                if let Some((len, spans)) = c10::model_match(prefix, true, rem.as_bytes()) {
                    if guards.iter().all(|g| eval_guard(g, r, marker)) {
                        for (i, (a, b)) in spans.iter().enumerate() {
                            mi.push((format!("p{}", base + i), rem[*a..*b].to_string()));
                        }
                        let marker = data.or(marker);
                        // a scope without its own default service falls back to the App's default
                        // service (documented on Scope::default_service), not to an enclosing scope's
                        let _ = default;
                        return route_level(children, d2.or(app_default), app_default, &rem[len..], r, mi, marker, base + prefix.n_dyn(), false);
                    }
                }
            }
            Node::RouteShortcut { pat, route } => {
                let p2;
                let p = if at_root && pat.segs.is_empty() && !pat.tail {
                    p2 = Pat { segs: vec![Seg::Static("/".into())], tail: false };
                    &p2
                } else {
                    pat
                };
                if let Some((_len, spans)) = c10::model_match(p, false, rem.as_bytes()) {
                    let m_ok = route.method.is_none_or(|m| r.method == METHODS[m as usize % 3]);
                    if m_ok && route.guards.iter().all(|g| eval_guard(g, r, marker)) {
                        for (i, (a, b)) in spans.iter().enumerate() {
                            mi.push((format!("p{}", base + i), rem[*a..*b].to_string()));
                        }
                        mi.sort();
                        return Routed::Handler { id: route.id, marker, mi: mi.clone() };
                    }
                }
            }
            Node::Resource { pats, guards, data, routes, default: rd } => {
                let hit = pats.iter().find_map(|p| {
                    let p2;
                    let p = if at_root && p.segs.is_empty() && !p.tail {
                        p2 = Pat { segs: vec![Seg::Static("/".into())], tail: false };
                        &p2
                    } else {
                        p
                    };
                    c10::model_match(p, false, rem.as_bytes())
                });
                if let Some((_len, spans)) = hit {
                    if guards.iter().all(|g| eval_guard(g, r, marker)) {
                        for (i, (a, b)) in spans.iter().enumerate() {
                            mi.push((format!("p{}", base + i), rem[*a..*b].to_string()));
                        }
                        let marker = data.or(marker);
                        for rt in routes {
                            let m_ok = rt.method.is_none_or(|m| r.method == METHODS[m as usize % 3]);
                            if m_ok && rt.guards.iter().all(|g| eval_guard(g, r, marker)) {
                                mi.sort();
                                return Routed::Handler { id: rt.id, marker, mi: mi.clone() };
                            }
                        }
                        return match rd {
                            Some(id) => {
                                mi.sort();
                                Routed::Handler { id: *id, marker, mi: mi.clone() }
                            }
                            None => Routed::MethodNotAllowed,
                        };
                    }
                }
            }
        }
    }
    match default {
        Some(id) => {
            mi.sort();
            Routed::Handler { id, marker, mi: mi.clone() }
        }
        None => Routed::NotFound,
    }
}

// ------------------------------------------------------------------------------------------
// request paths
// ------------------------------------------------------------------------------------------

fn chains(children: &[Node], prefix: String, out: &mut Vec<Vec<Pat>>, cur: &mut Vec<Pat>) {
    for c in children {
        match c {
            Node::Scope { prefix: p, children, .. } => {
                cur.push(p.clone());
                out.push(cur.clone());
                chains(children, prefix.clone(), out, cur);
                cur.pop();
            }
            Node::Resource { pats, .. } => {
                for p in pats {
                    cur.push(p.clone());
                    out.push(cur.clone());
                    cur.pop();
                }
            }
            Node::RouteShortcut { pat, .. } => {
                cur.push(pat.clone());
                out.push(cur.clone());
                cur.pop();
            }
        }
    }
}

fn derive_path(case: &Case, rq: &ReqSpec) -> String {
    if let Some(p) = &rq.path {
        return p.clone();
    }
    let mut all = vec![];
    chains(&case.children, String::new(), &mut all, &mut vec![]);
    let sel = |i: usize| rq.sels.get(i % rq.sels.len().max(1)).copied().unwrap_or(0);
    let mut path = String::new();
    if !all.is_empty() {
        let chain = &all[sel(0) as usize % all.len()];
        let mut k = 1;
        for p in chain {
            for s in &p.segs {
                match s {
                    Seg::Static(x) => path.push_str(x),
                    Seg::Dyn(kind) => {
                        path.push_str(&c10::sample_value(*kind, sel(k)));
                        k += 1;
                    }
                }
            }
            if p.tail {
                path.push_str(["", "t", "t/u", "x//y"][sel(k) as usize % 4]);
                k += 1;
            }
        }
    }
    // perturbations
    match sel(7) % 12 {
        0 | 1 | 2 | 3 => {}
        4 => path.push('/'),
        5 => path.push_str("/extra"),
        6 => {
            path.pop();
        }
        7 => path = path.replacen('/', "//", 1),
        8 => path = path.replacen('a', "%61", 1),
        9 => path = path.replacen('/', "%2F", 1),
        10 => path.push_str("%2Fz"),
        _ => path = path.replacen('b', "%62", 2),
    }
    // keep it a valid origin-form path
    let mut clean: String = path.chars().filter(|c| c.is_ascii_alphanumeric() || "/-._~%".contains(*c)).collect();
    // '%' only as part of a valid escape
    let bytes = clean.clone().into_bytes();
    let mut ok = String::new();
    let mut i = 0;
    while i < bytes.len() {
        if bytes[i] == b'%' {
            if i + 2 < bytes.len() && bytes[i + 1].is_ascii_hexdigit() && bytes[i + 2].is_ascii_hexdigit() {
                ok.push_str(std::str::from_utf8(&bytes[i..i + 3]).unwrap());
                i += 3;
                continue;
            }
            i += 1;
            continue;
        }
        ok.push(bytes[i] as char);
        i += 1;
    }
    clean = ok;
    if !clean.starts_with('/') {
        clean.insert(0, '/');
    }
    clean
}

pub fn run_case(_cfg: &RunCfg, case: &Case) -> Verdict {
    let case2 = case.clone();
    let n_reqs = case.reqs.len();
    let fut = async move {
        let case = case2;
        let mut app = App::new().app_data(Marker(0));
        for c in &case.children {
            match c {
                Node::Scope { prefix, guards, data, default, children } => app = app.service(build_scope(prefix, guards, *data, *default, children, name_base_of(0))),
                Node::Resource { pats, guards, data, routes, default } => app = app.service(build_resource(pats, guards, *data, routes, *default, 0, true)),
                Node::RouteShortcut { pat, route } => app = app.route(&shortcut_path(pat, 0, true), build_route(route)),
            }
        }
        if let Some(id) = case.app_default {
            app = app.default_service(web::to(move |req: HttpRequest| report(id, req)));
        }
        let svc = test::init_service(app).await;
        let mut results: Vec<(String, StatusCode, String)> = vec![];
        for rq in &case.reqs {
            let path = derive_path(&case, rq);
            let mut tr = test::TestRequest::with_uri(&path).method(Method::from_bytes(METHODS[rq.method as usize % 3].as_bytes()).unwrap());
            if let Some(x) = rq.xg {
                tr = tr.insert_header(("x-g", XG[x as usize % 2]));
            }
            if let Some(h) = rq.host {
                tr = tr.insert_header(("host", HOSTS[h as usize % 2]));
            }
            let resp = test::call_service(&svc, tr.to_request()).await;
            let status = resp.status();
            let body = test::read_body(resp).await;
            results.push((path, status, String::from_utf8_lossy(&body).into_owned()));
        }
        results
    };
    let results = match streams::run_local(600_000, fut) {
        RunEnd::Done(r) => r,
        RunEnd::Hang => return Verdict::failed("routing never completed"),
        RunEnd::Panicked(p) => return Verdict::failed(format!("panic: {p} (table {:?})", case.children)),
    };
    let mut nt = false;
    let mut v = Verdict::ok();
    for (rq, (path, status, body)) in case.reqs.iter().zip(results.iter()) {
        let decoded = match c10::ref_requote(path.as_bytes(), b"%/+") {
            Some(d) => String::from_utf8_lossy(&d).into_owned(),
            None => path.clone(),
        };
        let r = Rq { method: METHODS[rq.method as usize % 3], xg: rq.xg.map(|x| XG[x as usize % 2]), host: rq.host.map(|h| HOSTS[h as usize % 2]) };
        let mut mi = vec![];
        let want = route_level(&case.children, case.app_default, case.app_default, &decoded, &r, &mut mi, Some(0), 0, true);
        let got = match status.as_u16() {
            404 if body.is_empty() => Routed::NotFound,
            405 if body.is_empty() => Routed::MethodNotAllowed,
            200 => {
                // id=..;marker=..;mi=[..]
                let id = body.split(';').next().and_then(|s| s.strip_prefix("id=")).and_then(|s| s.parse::<u32>().ok());
                let marker = body.split(';').nth(1).and_then(|s| s.strip_prefix("marker=")).map(|s| s.trim_start_matches("Some(").trim_end_matches(')').parse::<u32>().ok());
                match (id, marker) {
                    (Some(id), Some(marker)) => {
                        let mi_txt = body.splitn(3, ';').nth(2).unwrap_or("").strip_prefix("mi=").unwrap_or("").to_string();
                        // compare textually with the model's rendering
                        let want_txt = match &want {
                            Routed::Handler { mi, .. } => format!("{mi:?}"),
                            _ => String::new(),
                        };
                        let mi = if mi_txt == want_txt {
                            match &want {
                                Routed::Handler { mi, .. } => mi.clone(),
                                _ => vec![],
                            }
                        } else {
                            vec![("<differs>".to_string(), mi_txt)]
                        };
                        Routed::Handler { id, marker, mi }
                    }
                    _ => return v.fail_with(format!("unparseable handler report {body:?}")),
                }
            }
            other => return v.fail_with(format!("unexpected status {other} body {body:?} for {} {path}", r.method)),
        };
        if matches!(&want, Routed::Handler { mi, .. } if !mi.is_empty()) {
            nt = true;
        }
        if got != want {
            return v.fail_with(format!(
                "{} {path} (decoded {decoded:?}, x-g {:?}, host {:?}): the app answered {got:?} [{body}], the routing model gives {want:?}; table: {}",
                r.method,
                r.xg,
                r.host,
                serde_json::to_string(&case.children).unwrap_or_default()
            ));
        }
        v = v
            .class_if(matches!(want, Routed::NotFound), "404")
            .class_if(matches!(want, Routed::MethodNotAllowed), "405")
            .class_if(path.contains('%'), "percent-encoded-path");
    }
    v.sub_evals = n_reqs as u64;
    v.classes.sort();
    v.classes.dedup();
    v.nt(nt)
}

// ------------------------------------------------------------------------------------------
// generators
// ------------------------------------------------------------------------------------------

fn guard_strategy() -> impl Strategy<Value = G> {
    let leaf = prop_oneof![
        3 => (0u8..2).prop_map(G::Header),
        3 => (0u8..2).prop_map(G::Host),
        3 => (0u8..3).prop_map(G::Method),
        2 => prop_oneof![Just(0u32), 1u32..4, 50u32..53].prop_map(G::DataIs),
    ];
    leaf.prop_recursive(2, 4, 2, |inner| prop_oneof![inner.clone().prop_map(|g| G::Not(Box::new(g))), proptest::collection::vec(inner, 1..3).prop_map(G::Any)])
}

fn simple_pat(allow_tail: bool) -> impl Strategy<Value = Pat> {
    c10::pat_strategy(allow_tail, false)
}

fn resource_strategy(ids: std::ops::Range<u32>) -> impl Strategy<Value = Node> {
    (
        proptest::collection::vec(simple_pat(true), 1..3),
        proptest::collection::vec(guard_strategy(), 0..2),
        proptest::option::weighted(0.3, 1u32..4),
        proptest::collection::vec((proptest::option::weighted(0.6, 0u8..3), proptest::collection::vec(guard_strategy(), 0..2), ids.clone()), 0..3),
        proptest::option::weighted(0.2, ids),
    )
        .prop_map(|(mut pats, guards, data, routes, default)| {
            // a tail segment in a list is as legal as in a single pattern; keep lists tail-free to
            // follow the docs' "semantically equivalent patterns" advice
            if pats.len() > 1 {
                for p in pats.iter_mut() {
                    p.tail = false;
                }
            }
            Node::Resource { pats, guards, data, routes: routes.into_iter().map(|(method, guards, id)| RouteSpec { method, guards, id }).collect(), default }
        })
}

fn shortcut_strategy() -> impl Strategy<Value = Node> {
    // a small pattern pool so that the same path is registered several times with different guards
    (
        prop_oneof![
            Just(Pat { segs: vec![Seg::Static("/item".into())], tail: false }),
            Just(Pat { segs: vec![Seg::Static("/item/".into()), Seg::Dyn(0)], tail: false }),
            simple_pat(false),
        ],
        proptest::option::weighted(0.8, 0u8..3),
        proptest::collection::vec(guard_strategy(), 0..2),
        30_000u32..40_000,
    )
        .prop_map(|(pat, method, guards, id)| Node::RouteShortcut { pat, route: RouteSpec { method, guards, id } })
}

fn node_strategy(depth: u32) -> BoxedStrategy<Node> {
    if depth == 0 {
        return prop_oneof![3 => resource_strategy(100..10_000), 2 => shortcut_strategy()].boxed();
    }
    prop_oneof![
        3 => resource_strategy(100..10_000),
        2 => shortcut_strategy(),
        2 => (
            simple_pat(false),
            proptest::collection::vec(guard_strategy(), 0..2),
            proptest::option::weighted(0.4, 50u32..53),
            proptest::option::weighted(0.3, 10_000u32..20_000),
            proptest::collection::vec(node_strategy(depth - 1), 0..4),
        )
            .prop_map(|(prefix, guards, data, default, children)| Node::Scope { prefix, guards, data, default, children }),
    ]
    .boxed()
}

fn case_strategy() -> impl Strategy<Value = Case> {
    (
        proptest::collection::vec(node_strategy(2), 1..5),
        proptest::option::weighted(0.4, 20_000u32..30_000),
        proptest::collection::vec(
            (0u8..3, proptest::collection::vec(any::<u16>(), 8), proptest::option::weighted(0.5, 0u8..2), proptest::option::weighted(0.5, 0u8..2))
                .prop_map(|(method, sels, xg, host)| ReqSpec { method, sels, xg, host, path: None }),
            8,
        ),
    )
        .prop_map(|(children, app_default, reqs)| Case { children, app_default, reqs })
}

pub fn run(cfg: &RunCfg) -> Report {
    let mut rep = Report::new("C09");
    rep.rule = "route tables of up to 3 levels: scopes with static / dynamic / \\d+ / [ab]+ prefixes (with and without trailing slash, empty), resources with one pattern or a list of two (static, dynamic, regex, tail), 0-2 routes each with an optional method and guards, resource / scope guards from Header(x-g) Host Method Not Any, route shortcuts (App::route / Scope::route, the same path registered several times with different guards), optional resource / scope / app default services, Marker app_data at app / scope / resource level; 8 requests per table with paths derived from the table's own pattern chains (values sampled from each segment's language) and 12 perturbations (trailing slash, extra segment, dropped character, empty segment, %61 %62 %2F escapes), methods GET/POST/PUT, x-g and Host headers; \
                non-trivial = the request reaches a handler with at least one captured parameter; distinct by hash of the case; evaluations count requests"
        .into();
    rep.assumptions = vec![
        "reference router = committed descent: at each level the first child in registration order whose pattern matches the unprocessed (partially percent-decoded, %2F %25 %2B kept) path and whose guards accept takes the request; a scope consumes its prefix and recurses; no child: the scope's own default service, else the App's default service (as documented on Scope::default_service: intermediate scopes' defaults are not inherited), else 404; a matched resource without an accepting route: its default service, else 405".into(),
        "pattern matching in the model is C10's reference matcher, percent-decoding C10's reference decoder".into(),
        "patterns the docs call meaningless (tail in a prefix, duplicate names) are not generated; parameter names are unique along every scope chain".into(),
        "match_pattern / match_name are not compared here (C11 compares them between runs)".into(),
    ];
    runner::replay_pinned(&mut rep, cfg, &replay);
    runner::replay_regress(&mut rep, cfg, &replay);
    explore(&mut rep, cfg, "tables", cfg.cases(80_000, 1_600_000), case_strategy, |c| run_case(cfg, c));
    rep
}

pub fn replay(cfg: &RunCfg, _phase: &str, case: &serde_json::Value) -> Result<Verdict, String> {
    let c: Case = runner::from_json(case)?;
    Ok(run_case(cfg, &c))
}
