#!/usr/bin/env python3
"""One-off editor used to bring DESIGN.md from the round-0 design text to the as-built state.
Kept for the record (idempotent: refuses to run twice)."""
import re, sys
P = '/verif/DESIGN.md'
s = open(P).read()
if '## 0. Status and results' in s:
    sys.exit('already applied')

# ---------------------------------------------------------------------------------- header
old_status = s[s.index('Status: design only (round 0).'):s.index('Contents\n')]
new_status = '''Status: built. All 19 properties have a registered check (MANIFEST.json, `not_applicable`
empty); section 0 says what exists, what was found, and where the built machinery deviates
from the design text below. Sections 1-8 are the design as written before the code; every
per-property subsection of section 5 ends with an **As built** paragraph that takes
precedence over the plan above it where the two differ. Statements of the form "observed"
come from the pinned tree (`/repo`) and, for the round-0 table in section 4, from
throw-away probe programs.

'''
s = s.replace(old_status, new_status)
s = s.replace('''1. Technique, and why it reaches what the test suite cannot''', '''0. Status and results: what exists, defects found (repaired / listed), false alarms, sensitivity
1. Technique, and why it reaches what the test suite cannot''')

sec0 = r'''## 0. Status and results

### 0.1 What exists

* `harness/` — cargo package `vp` (library `vp_core` + binary): runner (`runner.rs`: 16 seeded
  proptest workers, shrinking, replay files, class histograms, known-findings exclusion,
  enumerators for finite sub-spaces, pinned / regression replay), engines `simnet.rs`
  (scripted socket, closed-loop write schedules, `ActixStream`), `h1engine.rs` (HttpService +
  interpreted handler programs under the paused clock), `appengine.rs` (any `ServiceFactory`,
  incl. an actix-web `App`, over simnet; several connections on one service), `streams.rs`
  (scripted chunk streams + wake-driven runner with a virtual deadline), `httpwire.rs`
  (request renderer, independent response parser), `alloc.rs` (counting global allocator),
  `gen.rs`, and one module per property `props/c01.rs … c19.rs` (the h2 client engine lives in
  `c08.rs`, the awc connector engine in `c17.rs`).
* `fuzz/` — cargo-fuzz crate: six libFuzzer targets (ASan, overflow checks, debug assertions)
  calling `vp_core::props::c19::exercise`; committed seed corpus `fuzz/corpus/<target>/`.
* `./check <ID> --tier quick|thorough`, `./check replay <file>` (JSON cases and raw fuzzer
  inputs), `./check build`; `known_findings.json`; `replays/known/` (pinned cases of listed
  findings), `replays/regress/` (cases that failed before a repo fix or under a seeded
  change; replayed first by every run); `seeded/<ID>-<n>/` (seeded breaking changes);
  `tools/` (manifest generator, schema validation, repo test runner, seed prompt / verify,
  patch rig).
* Hooks in `/repo`: none (every observation is made at a public API or at the scripted socket).

Quick tiers are fixed work (case counts, never time quotas): 8·10³ … 3.8·10⁷ evaluations per
property, 3–40 s each on 16 cores after the build; thorough tiers are 10–20× that, and for C19
additionally a 6 × 600 s libFuzzer campaign.

### 0.2 Genuine defects found on the pinned tree

Every entry was first reported by a generated case of the named check, reproduced against the
real code, and then either repaired by a minimal unguarded `fix:` commit in `/repo` (the
pinned suite, unedited, passes after each: 1051 nextest tests) or listed in
`known_findings.json` when the repair is not small and safe or collides with an existing
test. `P…` refers to the round-0 probe table of section 4. Each fix has a regression replay
under `replays/regress/` that fails on the pre-fix tree (`tools/with_patch.sh revert:<commit>`).

| # | property | defect | outcome |
|---|---|---|---|
| 1 | C18 | `HeaderMap::remove/insert` on an absent name returned a `Removed` iterator with `size_hint (0, None)`; `len()` panicked | fix 3b3d876 |
| 2 | C02 (P4 part) | a response gained `Connection: close` because of the *next* queued request's partly received body; later keep-alive requests were dropped | fix c71d016 |
| 3 | C01 | bad chunk syntax in a request body was treated as a disconnect: no 4xx, handler saw `Incomplete` | fix b15e1b0 |
| 4 | C02 (P1) | 204 built with a body wrote the body bytes after a head declaring none | fix b3d7ca2 |
| 5 | C02 (P2) | an empty chunk from a response body ended the chunked response early | fix 4a1b754 |
| 6 | C01 (P5) | an empty chunk-size line was accepted as size 0 (request smuggling vector) | fix 66a4453 |
| 7 | C02 (P3) | streaming body to an HTTP/1.0 request sent with `Transfer-Encoding: chunked` | fix ba2a5af |
| 8 | C02 (P12) | `h1::Codec` kept HEAD flag / version / connection type per connection: responses framed with a later pipelined request's context | fix 93b7e8f |
| 9 | C03/C04/C06 | a timer whose deadline (from the 500 ms cached clock) had already passed at creation completed without registering a wake-up: linger/shutdown never finished | fix 503e249 |
| 10 | C04 | keep-alive timer armed when the response was encoded, not when written: slow peer lost the tail of a response | fix 5f0b877 |
| 11 | C05 | requests read while 16 were queued stayed undecoded after the queue drained (served only if the peer sent more) | fix 073b2b6 |
| 12 | C05 | reading suspended on a full read buffer was never resumed when the handler returned in the same poll: connection stalled | fix bdb2e3a |
| 13 | C06 | expired keep-alive timer stayed armed and re-started the shutdown timeout on every poll: shutdown never bounded | fix c13e10b |
| 14 | C06 | only keep-alive expiry armed the shutdown timer; 408 / closing response / half-close / drain shutdowns had no deadline | fix eaa4ec9 |
| 15 | C14 (P8) | ws parser compared the announced length with `max_size` only after buffering the whole frame | fix c970cc0 |
| 16 | C14 | FIN=1 data frame inside a fragmented message was delivered instead of rejected | fix 2d8c790 |
| 17 | C15 | chunk ending exactly after CRLF`--`: delimiter bytes delivered as content, field never ended | fix 788089f |
| 18 | C15 (P9a) | body truncated after content + CR / CRLF / delimiter start never terminated (hang) | fix 80598be |
| 19 | C13 | `identity;q=0, *;q=0.001` treated identity as acceptable | fix d2a6a3b |
| 20 | C08 (P7) | HTTP/2: empty chunk from a custom body waited for capacity 0 for ever | fix a4f9340 |
| 21 | C08 (P6) | HTTP/2: 304 built with a body sent content-length and DATA | fix fb87119 |
| 22 | C16/C19 (P10) | `Range: bytes=-N` on an empty file: `offset + length - 1` underflow panic | fix 1bf2c46 |
| 23 | C01 | peer half-close while received body bytes are still undecoded (back-pressure) fails the body with `Incomplete` | listed `half-close-discards-buffered-body` (repair touches the read/EOF state machine) |
| 24 | C02 (P1) | 304 built with a body writes the body bytes (HTTP/1) | listed `304-with-body-writes-body-bytes`: the existing test `not_modified_spec_h1` pins the behaviour |
| 25 | C02 | a failing / short response body drops already encoded, unflushed earlier responses | listed `body-error-discards-buffered-responses` (repair = new dispatcher state) |
| 26 | C03 (P4) | requests already buffered when a closing response completes are still dispatched and answered | listed `pipelined-requests-served-after-close` (queue discipline of the dispatcher) |
| 27 | C03 | `Connection: close` response to a request whose chunked body was dropped: connection drains, then serves later requests | listed `close-then-drain-then-serve` |
| 28 | C15 (P9b) | bare CR + `--boundary` inside content taken for a delimiter | listed `bare-cr-boundary-ends-field` (repair changes the scanner's contract for all callers) |
| 29 | C17 (P11) | awc delivers a body cut short (Content-Length / chunked) as success | listed `truncated-body-delivered-as-success`: a working repair (`decode_eof` → `Incomplete`) breaks the existing test `not_modified_spec_h1`, which must pass unedited |

Listed findings are identified by a predicate over the abstract case plus a pinned case
(`replays/known/`); the check prints one `KNOWN-FINDING:` line per entry that still fails,
excludes or sub-check-skips exactly that class (counted in `excluded_by_known_findings`) and
keeps reporting everything else.

Observations recorded but **not** treated as violations (the property does not claim them):
busy self-wake of the dispatcher while read buffer and queue are both full (no virtual time
passes; generators avoid it with `pre_yields`); the pipelined-request queue is bounded by the
read buffer (thousands of minimal requests), not by 16; flate2 decoders accept a truncated
compressed *request* stream; the handshake accepts `Upgrade`/`Connection` tokens by substring;
a linger that saw EOF before it started waits the full disconnect timeout;
`HttpRequest::full_url` panics on a malformed Host (documented under `# Panics`);
`TestRequest::to_http_request` leaks its request pool (test utility).

### 0.3 False alarms (machinery corrected, nothing listed)

| check | what it wrongly demanded / modelled | correction |
|---|---|---|
| C03 | `drainable` ignored that a failing echo handler drops its payload | predicate `chunked && (fail || !Echo)` |
| C04 | status 0 for a head cut by the fault; close-delimited bodies under reset; too narrow known-finding skip; completion limit ignoring linger after EOF | oracle cases added; limit = disc timeout + 500 ms when EOF precedes linger |
| C05 | 30-minute wall-clock spin (dispatcher busy self-wake under the paused clock); chunked framing overhead counted as buffered body; bounds below `BytesMut` capacity doubling | `pre_yields` in handler programs; `body_scale`; cap 256 KiB read buffer / 608 KiB in flight; `Drop` consumer exempt |
| C06 | negative deadline; events on a 500 ms clock tick judged exactly; `never_reads` peers expected to be cut (no write timeout is claimed); my first version of fix eaa4ec9 armed the timer before the flush and cut slow responses | `max(idle_from)`; `on_tick` cases not judged; restricted to keep-alive expiry; fix amended to arm after the flush |
| C09 | nested scope default expected 404 where the docs say the App default is inherited | model follows the docs |
| C13 | demanded an error for a truncated compressed request stream (beyond the property) | downgraded to an observation; empty known-size bodies are pass-through |
| C14 | handshake helper needs a `LocalSet`; over-long fragmented close is morphed, not rejected | harness / model |
| C15 | garbage after the first boundary is legal preamble; `HeaderBlockUnterminated` mangle unsound with CR/LF content or ':' in the boundary; zero-field / lone-CR truncation offsets | classes moved / constrained |
| C16 | `/statica.txt` plain-target generator bug; listing check looked at the title instead of hrefs; inverted range specs | generator / oracle fixed, 206/200/416 all accepted for inverted specs |
| C17 | skip condition of the listed finding; extras after a to-close exchange | `k >= body_start`; extras removed |
| C19 | `full_url` (documented panic) called by the harness; typed `Content-Length` parser fed a leading `+` that no decoder lets through (its debug assertion states the precondition); ws codec configured with `max_size = usize::MAX/2` reserved the announced length (a configuration, not peer input); LeakSanitizer reports for actix-router's by-design pattern-name leak and the TestRequest pool | calls removed / precondition applied / limit 1 MiB / leak detection off |

### 0.4 Sensitivity: seeded changes and kill mutations

**Seeded changes** (section brief: fresh sub-agents, given only one property's text and a
scratch worktree, produced changes that compile, pass the crate's existing tests and need
something specific to manifest; each confirmed by me — demo fails with / passes without — then
applied to `/repo`, checked, reverted; kept under `seeded/<ID>-<n>/` with `patch.diff`, demo,
`meta.json`). Round 1: 38 changes, two per property.

| seed | site | caught by (quick tier) |
|---|---|---|
| C01-1 | decoder skips re-parse of an incomplete head | C01 |
| C01-2 | chunked `read_body_lf` → `SizeDigits` | C01, C03 |
| C02-1 | `Length` encoder truncation | C02, C04 |
| C02-2 | codec early-out for body chunks | C02, C04 |
| C03-1 | bodiless responses skip linger/shutdown | C03 |
| C03-2 | parse-error arm keeps the payload | C03, C01 |
| C04-1 | `poll_flush` bookkeeping on `Pending` | C04 |
| C04-2 | LINGER result ignored | C06; C04 **only after** the half-close-after-responses dimension was added |
| C05-1 | `need_read` set unconditionally after a pop | C05 |
| C05-2 | `SendPayload` loop without the write-buffer guard | C05 |
| C06-1 | drain guard simplified | C06 **after** uploads were added to the drain phase |
| C06-2 | `STARTED` re-interpreted | C06 |
| C07-1 / C07-2 | reader waker stored only if none parked / `sender_closed` not set | C07 |
| C08-1 / C08-2 | capacity arm `continue` / `eof_or_head` moved | C08 (C08-2 re-based on fix fb87119) |
| C09-1 | `Url::update` keeps stale decoded path | C09, C11 |
| C09-2 | `App::route` drops route guards | C09 **after** route-shortcut nodes were added to the table grammar |
| C10-1 / C10-2 | `Quoter::decode_next` index loop / segment values by index | C10 |
| C11-1 / C11-2 | stale `Path<Url>` / `resource_path_matched` not reset in pooled requests | C11 (C11-1 also C09) |
| C12-1 / C12-2 | per-chunk limit only without Content-Length / multipart `Limits` tidied | C12 |
| C13-1 / C13-2 | deflate `write` vs `write_all` / `no_chunking(false)` dropped | C13 |
| C14-1 | reserve not capped by `max_size` | C14 on the tree before fix c970cc0; the fix neutralises the change |
| C14-2 | control frames dispatched before the continuation check | C14 |
| C15-1 / C15-2 | CR scan resume offset / dropped self-wake in bounded fill | C15 |
| C16-1 | separator-count check removed from `parse_path` | C16 |
| C16-2 | `bytes=N-` fast path | C16 on the tree before fix 1bf2c46; neutralised by it |
| C17-1 | payload-decoder branch order (chunked + Content-Length) | C17 **after** TE+CL responses were added to the framing grammar |
| C17-2 | idle-connection lookup before the permit | C17 |
| C18-1 / C18-2 | `from_drain` refactor / `swap_remove` in `Drain` | C18 |
| C19-1 | `parse_close_payload` on a 1-byte payload | C19, C14 |
| C19-2 | multipart `cur + 3 > len` | C19, C15 |

Four seeds were missed at first (C04-2, C06-1, C09-2, C17-1); each miss named a missing
generator dimension, which was added (not a special case for the seed). Round 2 (second,
independent changes for the dispatcher properties) is recorded in section 7.

**Kill mutations** (my own, one at a time as a patch on `/repo`, `tools/with_patch.sh`; the
patches are kept under `mutations/`): see the table in section 7. Every `fix:` commit doubles
as a kill mutation in reverse: its regression replay was produced by the check on the pre-fix
tree and fails again when the fix is reverted (`tools/with_patch.sh revert:<commit> -- ./check <ID>`).

--------------------------------------------------------------------------------

'''
s = s.replace('## 1. Technique\n', sec0 + '## 1. Technique\n', 1)

# ---------------------------------------------------------------------------------- section 2 layout
old_layout = s[s.index('```\n/verif\n  DESIGN.md'):s.index('* The harness depends on the crates under test')]
new_layout = '''```
/verif
  DESIGN.md  MANIFEST.json  properties.jsonl (given, untouched)
  known_findings.json          committed; read-only at run time (section 4)
  check                        bash entry point:  ./check <ID> [--tier quick|thorough] | replay FILE | build
  harness/                     cargo package `vp`: library `vp_core` + one binary
    Cargo.toml  Cargo.lock (from /repo + harness deps)
    src/main.rs                CLI, tier/seed plumbing, evidence writer, VIOLATION/KNOWN-FINDING printing
    src/{runner,simnet,h1engine,appengine,streams,httpwire,gen,alloc,util}.rs   engines (section 3)
    src/props/c01.rs … c19.rs  generator + oracle + non-triviality classifier per property
  fuzz/                        cargo-fuzz crate depending on `vp_core` by path: six thin targets
                               (`exercise(Target, bytes, fragmentation)`), committed corpus
  replays/                     shrunk failing cases written on violation; known/ pinned; regress/ regression
  seeded/<ID>-<n>/             seeded breaking changes (patch.diff, demo, meta.json)
  tools/                       gen_manifest.py validate.sh repo_tests.sh seed_prompt.py seed_verify.sh with_patch.sh mutrig.sh
  evidence/<ID>.json           rewritten by every run
  target/                      cargo build output of harness and fuzz, per-run temp trees (never under /tmp)
```

(As built: no `.cargo/config.toml`; `./check` exports `CARGO_NET_OFFLINE=true` and
`CARGO_TARGET_DIR=/verif/target`. The dev profile itself carries `opt-level = 1`,
overflow checks and debug assertions; dependencies are built at `opt-level = 2`.)

'''
s = s.replace(old_layout, new_layout)

# ---------------------------------------------------------------------------------- E6
s = s.replace('''### E6 `fuzz` — libFuzzer targets (thorough tier; C01, C10, C14, C15, C16, C18, C19)
''', '''### E6 `fuzz` — libFuzzer targets (thorough tier)

*As built:* libFuzzer targets exist for C19 only (six surfaces, see C19). The planned
per-property differential targets (C01 codec split, C10, C14, C15, C16, C18) were not built:
their oracles run at 10⁵–10⁷ structured cases per quick tier with exhaustive sub-spaces, and
all seeded changes at those sites were found by the structured layer; the fuzz time goes into
the crash/hang/allocation oracle, where byte-level novelty pays most. Design text:
''')

# ---------------------------------------------------------------------------------- per-property as-built
asbuilt = {
'C01': '''* **As built.** Phases `valid` (2·10⁵) and `malformed` (2·10⁵, 27 malformed classes with attack
  suffix) per quick run; the differential is against ground truth by construction rather than a
  second "whole" run. Heads above 128 KiB are a lenient class (exact parse or 4xx) because
  acceptance depends on read sizes. Upgrade / CONNECT are outside the domain. No libFuzzer codec
  target (see E6). Findings: #3, #6 repaired; #23 listed — its class (half-close with undecoded
  body bytes under back-pressure) is excluded by construction where it decides the outcome and
  skipped as a sub-check elsewhere (both counted). Seeds C01-1/2, C03-2 caught.
''',
'C02': '''* **As built.** One phase `pipeline` (3.4·10⁵ per quick run) with handler/body programs; the solo
  differential (`run_case_ext(.., solo)`) re-runs request i alone. Findings #2, #4, #5, #7, #8
  repaired; #24 (304 with body) excluded by construction, #25 (body error discards buffered
  responses) skips only the "earlier responses complete" sub-check. The C02 oracle
  (`check_response`, `expected_for`) is reused by C04 and C05.
''',
'C03': '''* **As built.** Phase `reuse` (4·10⁵). Findings #26 and #27 skip only the
  "nothing dispatched after the closing response" sub-check for requests already on the wire
  (#26) or after a drained dropped chunked body (#27); byte-level checks (no `/inbody-*` target
  ever dispatched, exact bodies, nothing written after the closing response's connection end)
  stay on. Finding #9 (timer due at creation) was first seen here as a linger that never ended.
''',
'C04': '''* **As built.** Level `fault_enumeration`: phases `schedules` (closed-loop write schedules
  `WSched`: credit drip, max write size, flush `Pending` patterns, blocked shutdown) and `faults`
  (EOF / reset at every generated offset, reset after k responses, half-close after the
  responses with a generated disconnect timeout). Oracle = C02's response oracle on whatever was
  written + timeliness: completion by last send + program delays + time the peer itself blocked
  + 150 ms (+ disconnect timeout + 500 ms when EOF precedes linger). The benign-socket
  differential of the plan is replaced by ground truth from the handler programs. Findings #9,
  #10 repaired. Seed C04-2 needed the half-close-after-responses dimension.
''',
'C05': '''* **As built.** Phases `head`, `body`, `pipeline`, `response`; byte accounting at socket and
  handler. Bounds as measured and derived from constants: read side ≤ 256 KiB
  (`MAX_BUFFER_SIZE` 128 KiB with `BytesMut` capacity doubling) — 608 KiB in flight including
  the payload channel and one decoded buffer; write side ≤ write-buffer size + largest chunk +
  framing. The queue bound is *not* 16 but "what one read buffer holds" — stated, not claimed
  otherwise. Allocation high-water mark (counting allocator) is recorded per case and bounded
  coarsely. Findings #11, #12 repaired (both were stalls found while measuring bounds).
''',
'C06': '''* **As built.** Phases `head`, `keep-alive`, `drain` (3·10⁵ each) and `shutdown`. Deadlines are
  modelled *exactly*: `t − ((accept_delay + t) mod 500) + timeout` from the 500 ms cached clock,
  ε = 3 ms; events that fall on a clock tick are ambiguous and not judged (`on_tick`, counted).
  Findings #13, #14 repaired; #14's first repair attempt was itself caught by this check (it cut
  slow responses) and amended. Uploads were added to the drain phase after seed C06-1.
''',
'C07': '''* **As built.** Exhaustive over a 10-letter op alphabet to depth 6 (quick, 10⁶ sequences,
  `exhaustive: true` for that sub-space) / depth 8 (thorough), plus 3·10⁵ random sequences of
  length ≤ 60 against the reference model. 5/5 kill mutations and both seeds detected.
''',
'C08': '''* **As built.** 4·10⁴ connections per quick run; stream windows 1 / 100 / 16 384 / 65 535 / 1 MiB /
  random, capacity released eagerly / in steps with virtual delays / never (starved) / stream
  reset after k bytes; the connection window is kept large so one starved stream is never a
  legitimate reason for another to wait. Findings #20, #21 repaired. Request bodies over h2 and
  keep-alive pings are not explored.
''',
'C09': '''* **As built.** Table AST nodes `Scope`, `Resource`, `RouteShortcut` (`App::route` /
  `Scope::route`, added after seed C09-2); reference router built on C10's reference matcher and
  re-quoter; nested scope defaults inherit the App default as documented. 6.4·10⁴ requests per
  quick run; 4/4 kill mutations detected.
''',
'C10': '''* **As built.** Reference regex-free backtracking matcher (`Re`, `Pat/Seg/Def`) and reference
  percent re-quoter. Exhaustive phases: every path over a small alphabet up to a length bound
  against a pattern menu (2.2·10⁷ pairs) and every byte string over the quoter alphabet
  (1.6·10⁷), both `exhaustive: true` for their sub-space; random `derived` paths (built from the
  pattern's own language + perturbations), `long` paths around the u16 offset limits, round
  trip `resource_path_from_iter` → match. 4/4 kill mutations detected.
''',
'C11': '''* **As built.** 14 path shapes × extensions / app_data markers / `match_info` / connection data on
  one App service, several connections (`appengine`), history vs fresh-service differential:
  the response to request k in any history equals the response of a fresh service to request k
  alone. 4/4 kill mutations detected; seeds C09-1 and C11-1/2 caught.
''',
'C12': '''* **As built.** Extractors `Bytes`, `String`, `Json`, `Form`, `Payload`-based readers and
  `MultipartForm` limits over the scripted payload stream, with and without Content-Length and
  content codings; oracle: accepted ⇒ length ≤ limit; rejected with the documented error;
  bytes pulled from the stream ≤ limit + one chunk (+ decoder window). 3·10⁴ per quick run.
''',
'C13': '''* **As built.** `Compress` behind the real h1 stack (`appengine`), reference codecs called
  directly, RFC 7231 acceptability predicate as oracle for negotiation; request side:
  `Decompress` of generated codings. A truncated compressed *request* stream is an observation
  only (flate2 accepts it; the property does not claim it). Finding #19 repaired.
''',
'C14': '''* **As built.** Reference SHA-1 / base64 / frame codec; phases `roundtrip` (2·10⁵),
  `cuts-exhaustive` (every cut of a frame menu, `exhaustive`), `stream`, `oversize` (lengths
  around `max_size` and 2¹⁶ / 2³² / 2⁶³), `handshake-menu` (exhaustive menu of header
  combinations) and `handshake-keys`. Findings #15, #16 repaired. Handshake token-substring
  laxness is an observation.
''',
'C15': '''* **As built.** Ground truth by construction; phases `cuts` (every single cut position of a body
  menu), `truncation` (every truncation offset), `general` (random fields, boundaries,
  segmentations, self-waking `Pending` patterns, malformed classes) — 9.6·10⁵ per quick run;
  buffering bound from pull accounting. Findings #17, #18 repaired, #28 listed (its class is
  excluded by construction: content containing CR`--`boundary).
''',
'C16': '''* **As built.** Real temp tree under `/verif/target/tmp` (per worker, removed afterwards) with
  self-describing file contents and canaries outside the root; phases `paths` and `files`
  (Range / conditional headers against reference evaluators). Finding #22 repaired.
  If-Range, HEAD and pre-compressed variants are not generated.
''',
'C17': '''* **As built.** Level `fault_enumeration`: phase `cuts` cuts one short exchange at **every** byte
  offset (clean close and reset); `sequential` and `concurrent` phases check reuse
  contamination with tagged bodies and the connector limit by counting live connections.
  Finding #29 listed; exactly the "short success" sub-check is skipped for connections cut at or
  after the start of the body (counted). TE+CL responses were added after seed C17-1. The
  loopback smoke run of the plan was dropped (nothing in the oracle depends on the kernel).
''',
'C18': '''* **As built.** Model-based: op sequences vs a Vec multimap, all iterators and size hints at every
  depth, `Removed` / `Drain`, conversions from/to `http::HeaderMap`; 10⁶ sequences per quick
  run. Finding #1 repaired.
''',
'C19': '''* **As built.** Six surfaces behind `props::c19::exercise(target, bytes, fragmentation)`:
  `h1_server` (kitchen-sink App on the real dispatcher via `appengine`), `ws_stream`,
  `multipart`, `typed_headers`, `uri_path`, `client_response` (awc over the in-memory
  connector). Quick: 3.6·10⁶ structured mutants + replay of `fuzz/corpus` and
  `fuzz/artifacts`; thorough: 10× that, then `cargo +nightly fuzz build` (ASan, overflow checks,
  debug assertions) from the current `/repo` tree and six parallel 600 s libFuzzer campaigns
  from the committed corpus (`-seed` from `VERIF_SEED`, `-len_control=0`, `-max_len=70000`).
  A `crash-*` artifact is a violation and is itself the replay file (`./check replay <artifact>`
  runs it through the unsanitised entry point and prints the reason); libFuzzer `timeout-*` /
  `oom-*` artifacts and build failures are exit 2. Leak detection is off (actix-router leaks
  pattern names once per App by design). Documented programmer-facing panics are not called
  (section 0.3). Executions, corpus growth and exit status per target go into
  `coverage.libfuzzer` of the evidence. Seeds C19-1/2 caught by the quick tier.
''',
}
for pid, text in asbuilt.items():
    # insert before the next '### ' or '---' after the subsection heading
    m = re.search(r'^### ' + pid + r' — .*$', s, re.M)
    assert m, pid
    nxt = re.search(r'^(### |-{20,})', s[m.end():], re.M)
    pos = m.end() + nxt.start()
    s = s[:pos].rstrip('\n') + '\n' + text + '\n' + s[pos:]

# ---------------------------------------------------------------------------------- section 6
s = s.replace('''**Not applicable: none.** All 19 properties''', '''**Not applicable: none** (as planned and as built: MANIFEST `not_applicable` is empty). All 19 properties''')
s = s.replace('''Only C07 (depth ≤ d) and C10/C14 (small alphabets / short streams) carry
  `exhaustive: true` for an explicitly bounded sub-space.''', '''Only C07 (depth ≤ d), C10 (small alphabets) and C14 (cut positions, handshake
  menu) carry `exhaustive: true`, and only for an explicitly bounded sub-space (phase flag in
  the evidence); the property-level claim stays `exploration` (`fault_enumeration` for
  C04/C17).''')
s = s.replace('''C17's loopback TCP variant is a smoke test only.''', '''HTTP/2 frame parsing belongs to the h2 crate and is not a C19 surface.''')

# ---------------------------------------------------------------------------------- section 7/8
i7 = s.index('## 7. Validation of the machinery itself')
new78 = '''## 7. Validation of the machinery itself

Plan (unchanged): silence on the unchanged tree across seeds from fresh processes; sensitivity
by kill mutations and seeded changes; generator health from class histograms; no wall clock
in any verdict; independent reference code.

Results:

1. **Silence.** Every quick check exits 0 on the current tree (`/repo` HEAD with the 22 fix
   commits) for several `VERIF_SEED`s from fresh processes, printing only the seven
   `KNOWN-FINDING` lines; `vp check` (fresh copy, no network, evidence removed first) reported
   nothing needing attention. See the run log at the end of this section for the final sweep.
2. **Sensitivity.** Section 0.4 (38 round-1 seeds: 34 caught at once, 4 after a generator
   dimension was added, 2 of the 38 neutralised by later fixes and caught on the pre-fix
   tree) and the round-2 table below.
3. **Generator health.** `coverage.classes` in every evidence file; the non-trivial fraction is
   between 7 % (C09: two services matching the same path) and 83 % (C07).
4. **Determinism.** Verdicts depend on `VERIF_SEED`, the case and the code only; virtual time
   everywhere; the only wall-clock element is libFuzzer's campaign length (thorough C19), whose
   time-outs map to exit 2.

ROUND2_TABLE_PLACEHOLDER

## 8. Backlog (not done)

* Repairs for findings #25 (flush-then-shutdown state in the dispatcher) and #26/#27 (a
  `CLOSE_ANNOUNCED` flag that clears the message queue and refuses new items) were sketched but
  not attempted: each changes the dispatcher's state machine beyond "small and safe".
* libFuzzer differential targets for C01/C10/C14/C15/C16/C18 (section 3, E6).
* HTTP/2 request bodies and pings (C08), If-Range / HEAD / pre-compressed files (C16), TLS and
  h2 connections in awc (C17).
'''
s = s[:i7] + new78
open(P, 'w').write(s)
print('ok', len(s.splitlines()), 'lines')
