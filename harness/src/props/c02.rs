//! C02 — HTTP/1 responses: one per request, in order, self-framed, body-faithful.
//!
//! Generated pipelines × handler/body programs × arrival timings run against the real dispatcher;
//! the bytes written to the scripted socket are decoded by the independent client-side parser
//! (told the request methods) and compared with what each (request, program) pair alone
//! determines. A solo re-run of one request on a fresh connection checks independence directly.

use proptest::prelude::*;
use serde::{Deserialize, Serialize};

use crate::{
    gen::{self, BodyOpts, ReqOpts, SegSpec},
    h1engine::{
        self, BodyKind, BodyProg, ConnEnd, CustomHint, HandlerProg, KaCfg, Outcome, ReadProg,
        Scenario, SrvCfg,
    },
    httpwire::{self, ConnOpt, ParsedResp, ReqSpec, RespFraming},
    runner::{self, explore, Report, RunCfg, Verdict},
    simnet::PeerOp,
    util,
};

#[derive(Debug, Clone, Serialize, Deserialize)]
pub struct Case {
    pub ka: KaCfg,
    pub write_buf: u32,
    pub expect_reject: bool,
    pub expect_delay_ms: u16,
    pub reqs: Vec<ReqSpec>,
    pub progs: Vec<HandlerProg>,
    /// delay before request i is sent (ms, relative to the previous send)
    pub arrival: Vec<u16>,
    pub seg: SegSpec,
    /// client waits for `100 Continue` (or a final response) before sending an expect-body
    pub wait_continue: bool,
    pub eof_after: bool,
    /// which request is re-run alone for the independence check
    pub solo_sel: u16,
}

const BODY_OPTS: BodyOpts = BodyOpts {
    max_chunk: 40_000,
    allow_empty_chunks: true,
    allow_fail: true,
    allow_mismatch: true,
    allow_echo: true,
};

fn case_strategy() -> impl Strategy<Value = Case> {
    case_strategy_with(70_000)
}

pub fn case_strategy_with(max_body: u32) -> impl Strategy<Value = Case> {
    case_strategy_n(max_body, 1, 6)
}

/// Long pipelines: 17-48 small requests that are all on the wire before the first (slow) handler
/// answers, so more requests are decoded ahead of their responses than the dispatcher's nominal
/// queue length (it decodes everything one read buffer holds).
fn case_strategy_long() -> impl Strategy<Value = Case> {
    (case_strategy_n(120, 17, 49), 20u16..300, any::<bool>()).prop_map(|(mut c, first_delay, whole)| {
        if c.ka == KaCfg::Disabled {
            c.ka = KaCfg::Timeout(5000);
        }
        for a in c.arrival.iter_mut() {
            *a = 0;
        }
        if whole {
            c.seg = SegSpec::whole();
        }
        c.seg.one_byte = false;
        c.expect_reject = false;
        for (i, p) in c.progs.iter_mut().enumerate() {
            p.pre_delay_ms = if i == 0 { first_delay } else { p.pre_delay_ms.min(3) };
            p.post_delay_ms = p.post_delay_ms.min(3);
            p.read_pace_ms = 0;
            // (the listed 304-with-body class would exclude most long cases)
            if p.resp.status == 304 {
                p.resp.status = 200;
            }
            // small responses: the point is the framing context, not the volume
            for ch in p.resp.body.chunks.iter_mut() {
                ch.len = ch.len.min(300);
            }
            if let BodyKind::SizedStream(d) | BodyKind::Custom(CustomHint::Sized(d)) = &mut p.resp.body.kind {
                *d = (*d).min(2000);
            }
        }
        for r in c.reqs.iter_mut() {
            r.expect = false;
        }
        normalize(&mut c);
        c
    })
}

fn case_strategy_n(max_body: u32, lo: usize, hi: usize) -> impl Strategy<Value = Case> {
    (
        prop_oneof![6 => Just(KaCfg::Timeout(5000)), 1 => Just(KaCfg::Os), 1 => Just(KaCfg::Disabled)],
        prop_oneof![1 => Just(1u32), 1 => Just(512u32), 3 => Just(32_768u32), 1 => 2u32..5000],
        proptest::bool::weighted(0.15),
        prop_oneof![4 => Just(0u16), 1 => 1u16..50],
        proptest::collection::vec(
            (
                gen::req_spec(ReqOpts {
                    with_head: true,
                    allow_close: true,
                    allow_http10: true,
                    allow_expect: true,
                    max_body,
                }),
                gen::handler_prog(BODY_OPTS, false),
                gen::delay(5),
            ),
            lo..hi,
        ),
        gen::seg_spec(),
        any::<bool>(),
        proptest::bool::weighted(0.6),
        any::<u16>(),
    )
        .prop_map(
            |(ka, write_buf, expect_reject, expect_delay_ms, triples, seg, wait_continue, eof_after, solo_sel)| {
                let mut reqs = vec![];
                let mut progs = vec![];
                let mut arrival = vec![];
                for (r, p, a) in triples {
                    reqs.push(r);
                    progs.push(p);
                    arrival.push(a);
                }
                let mut c = Case {
                    ka,
                    write_buf,
                    expect_reject,
                    expect_delay_ms,
                    reqs,
                    progs,
                    arrival,
                    seg,
                    wait_continue,
                    eof_after,
                    solo_sel,
                };
                normalize(&mut c);
                c
            },
        )
}

/// Constrain the generated case to the property's (and the handlers' documented) domain.
pub fn normalize(c: &mut Case) {
    // the adjustments interact; two passes reach the fixpoint
    normalize_once(c);
    normalize_once(c);
}

fn normalize_once(c: &mut Case) {
    let n = c.reqs.len();
    if c.ka == KaCfg::Disabled && n > 1 {
        c.reqs.truncate(1);
        c.progs.truncate(1);
        c.arrival.truncate(1);
    }
    let n = c.reqs.len();
    for i in 0..n {
        let last = i + 1 == n;
        let r = &mut c.reqs[i];
        // methods: keep to GET/HEAD/POST/PUT (extension methods are C01's)
        if !matches!(r.method.as_str(), "GET" | "HEAD" | "POST" | "PUT") {
            r.method = "GET".into();
        }
        if !last {
            // close discipline is C03's: only the last request may end the connection
            if r.version == 0 {
                r.conn = ConnOpt::KeepAlive;
            } else if r.conn == ConnOpt::Close {
                r.conn = ConnOpt::None;
            }
        }
        gen::fixup_req(
            r,
            ReqOpts {
                with_head: true,
                allow_close: last,
                allow_http10: true,
                allow_expect: true,
                max_body: 70_000,
            },
        );
        let p = &mut c.progs[i];
        if !last {
            p.resp.force_close = false;
            // an unread body makes the server close: keep that to the last request
            if !matches!(p.resp.body.kind, BodyKind::Echo) {
                p.read = ReadProg::All;
            }
            // a failing / short body terminates the connection: only in the last position
            p.resp.body.fail_at_end = false;
            if let BodyKind::SizedStream(d) | BodyKind::Custom(CustomHint::Sized(d)) = &mut p.resp.body.kind {
                let total = p.resp.body.chunks.iter().map(|c| c.len).sum::<u32>();
                if *d > total {
                    *d = total;
                }
            }
            if c.expect_reject && r.expect {
                r.expect = false;
            }
            // an unframed HTTP/1.0 stream ends with the connection: last position only
            if http10_unframed(r, p) {
                p.resp.body.kind = BodyKind::Bytes;
            }
        }
        // documented contracts
        if p.resp.no_chunking && p.resp.user_te {
            p.resp.user_te = false;
        }
        // a handler that sets both framing headers by hand is outside any documented use
        if p.resp.user_cl.is_some() && p.resp.user_te {
            p.resp.user_te = false;
        }
        // a body of BodySize::None is only meaningful for statuses without a body
        if matches!(p.resp.body.kind, BodyKind::Custom(CustomHint::None)) && !matches!(p.resp.status, 204 | 304) {
            p.resp.body.kind = BodyKind::Custom(CustomHint::Stream);
        }
        if matches!(p.resp.body.kind, BodyKind::Echo) {
            p.resp.body.fail_at_end = false;
            p.resp.no_chunking = false;
        }
        if p.resp.no_chunking && p.resp.body.has_empty_chunk() {
            // an empty chunk ends a read-to-length stream early in TransferEncoding::Eof? keep the
            // documented use: no_chunking with a plain non-empty-chunk stream
            p.resp.body.chunks.retain(|c| c.len > 0);
        }
        // (again, after the kind adjustments above)
        if !last && http10_unframed(&c.reqs[i], p) {
            p.resp.body.kind = BodyKind::Bytes;
        }
        // responding while the own request body is unread closes the connection (C03's subject):
        // last position only
        if !last && c.reqs[i].has_body_framing() {
            p.fail = false;
            if matches!(p.resp.body.kind, BodyKind::Echo) {
                p.resp.body.kind = BodyKind::Stream;
                p.read = ReadProg::All;
            }
        }
    }
}

fn body_allowed(req: &ReqSpec, status: u16) -> bool {
    !(req.is_head() || status == 204 || status == 304 || status / 100 == 1)
}

fn is_streaming(k: &BodyKind) -> bool {
    matches!(k, BodyKind::Stream | BodyKind::Custom(CustomHint::Stream) | BodyKind::Echo)
}

/// The response is a stream of unknown length that an HTTP/1.0 client can only delimit by the
/// connection closing (no chunked coding in HTTP/1.0).
fn http10_unframed(req: &ReqSpec, p: &HandlerProg) -> bool {
    req.version == 0
        && !p.fail
        && !p.resp.no_chunking
        && match &p.resp.body.kind {
            BodyKind::Stream | BodyKind::Custom(CustomHint::Stream) => true,
            // the echo body is always a stream of unknown length (an absent payload is an empty stream)
            BodyKind::Echo => true,
            _ => false,
        }
}

/// Known-finding classes of a single (request, program) pair.
pub fn pair_known(cfg: &RunCfg, req: &ReqSpec, p: &HandlerProg) -> Option<&'static str> {
    let has_bytes = match &p.resp.body.kind {
        BodyKind::Unit => false,
        BodyKind::Custom(CustomHint::None) => false,
        BodyKind::Echo => req.body_len() > 0,
        _ => p.resp.body.total_len() > 0,
    };
    if cfg.kf.active("C02", "304-with-body-writes-body-bytes")
        && p.resp.status == 304
        && !req.is_head()
        && !p.fail
        // a streaming body always writes at least the chunked terminator
        && (has_bytes || is_streaming(&p.resp.body.kind))
    {
        return Some("304-with-body-writes-body-bytes");
    }
    None
}

fn heterogeneous(reqs: &[ReqSpec]) -> bool {
    let f = &reqs[0];
    let closes = |r: &ReqSpec| gen::closes_connection(r, true);
    reqs.iter()
        .any(|r| r.is_head() != f.is_head() || r.version != f.version || closes(r) != closes(f))
        || (reqs.len() > 1 && reqs.iter().any(closes))
}

pub struct Expected {
    pub status: u16,
    /// None = not checked
    pub body: Option<Vec<u8>>,
    /// the message must not be complete on the wire / connection must terminate
    pub must_terminate: bool,
    /// a complete message is acceptable even though the body errored (all declared bytes out)
    pub may_complete: bool,
    pub continues: u32,
    pub conn_close_expected: bool,
    pub conn_close_allowed_extra: bool,
    pub handler_called: bool,
}

fn produced_bytes(p: &BodyProg) -> Vec<u8> {
    p.all_bytes()
}

pub fn expected_for(case: &Case, i: usize, req_body: &[u8]) -> Expected {
    let req = &case.reqs[i];
    let p = &case.progs[i];
    let rejected = case.expect_reject && req.expect;
    let ka_enabled = case.ka != KaCfg::Disabled;
    let req_close = gen::closes_connection(req, ka_enabled);
    let mut e = Expected {
        status: p.resp.status,
        body: Some(vec![]),
        must_terminate: false,
        may_complete: false,
        continues: if req.expect && !rejected { 1 } else { 0 },
        conn_close_expected: req_close || p.resp.force_close,
        conn_close_allowed_extra: false,
        handler_called: !rejected,
    };
    if rejected {
        e.status = 417;
        e.conn_close_expected = req_close;
        // the request body was never read
        e.conn_close_allowed_extra = req.has_body_framing();
        return e;
    }
    // unread own body ⇒ the server may add close (documented connection-level reason)
    let reads_all = matches!(p.read, ReadProg::All) || matches!(p.resp.body.kind, BodyKind::Echo);
    if req.has_body_framing() && (!reads_all || p.fail) {
        e.conn_close_allowed_extra = true;
    }
    // an echo handler returns its response while its own request body is still unread
    if req.has_body_framing() && matches!(p.resp.body.kind, BodyKind::Echo) {
        e.conn_close_allowed_extra = true;
    }
    if req.has_body_framing() && matches!(p.read, ReadProg::UpTo(n) if (n as usize) < req.body_len() + 1) {
        e.conn_close_allowed_extra = true;
    }
    if p.fail {
        e.status = 500;
        // the error response is built by the service error conversion, not by the program
        e.conn_close_expected = req_close;
        return e;
    }
    if http10_unframed(req, p) {
        // no chunked coding in HTTP/1.0: the stream is delimited by the connection closing
        e.conn_close_expected = true;
    }
    let allowed = body_allowed(req, p.resp.status);
    let all = produced_bytes(&p.resp.body);
    let total = all.len();
    match &p.resp.body.kind {
        BodyKind::Unit => {}
        BodyKind::Bytes => {
            if allowed {
                e.body = Some(all);
            }
        }
        BodyKind::SizedStream(d) | BodyKind::Custom(CustomHint::Sized(d)) => {
            let d = *d as usize;
            if total < d {
                e.must_terminate = allowed;
                e.body = None;
            } else {
                if allowed {
                    e.body = Some(all[..d].to_vec());
                }
                if p.resp.body.fail_at_end {
                    e.may_complete = true;
                    e.must_terminate = false;
                    e.conn_close_allowed_extra = true;
                }
            }
            if total < d && !allowed {
                // bodiless message is complete after its head; what follows is a termination
                e.body = Some(vec![]);
                e.may_complete = true;
            }
        }
        BodyKind::Stream | BodyKind::Custom(CustomHint::Stream) => {
            if p.resp.body.fail_at_end && http10_unframed(req, p) {
                // a close-delimited HTTP/1.0 body cannot signal failure other than by closing,
                // which is also its normal end: nothing to demand beyond termination
                e.may_complete = true;
                e.body = None;
            } else if p.resp.body.fail_at_end {
                if allowed {
                    e.must_terminate = true;
                    e.body = None;
                } else {
                    e.may_complete = true;
                }
            } else if allowed {
                e.body = Some(all);
            }
        }
        BodyKind::Custom(CustomHint::None) => {}
        BodyKind::Echo => {
            if allowed {
                e.body = Some(req_body.to_vec());
            }
        }
    }
    e
}

pub fn build_scenario(case: &Case, only: Option<usize>, finding_halfclose: bool) -> (Scenario, Vec<usize>) {
    // returns the scenario and, per request, the offset where its bytes start
    let idxs: Vec<usize> = match only {
        Some(i) => vec![i],
        None => (0..case.reqs.len()).collect(),
    };
    let reqs: Vec<ReqSpec> = idxs.iter().map(|&i| case.reqs[i].clone()).collect();
    let rendered = httpwire::render_pipeline(&reqs);
    let total = rendered.bytes.len();
    let cuts = if only.is_some() {
        vec![]
    } else {
        gen::resolve_cuts(&case.seg, &rendered.marks, total)
    };
    let mut ops = vec![];
    let sels: Vec<u16> = case.seg.cuts.iter().map(|c| c.sel).collect();
    for (k, rr) in rendered.reqs.iter().enumerate() {
        let i = idxs[k];
        let d = if only.is_some() { 0 } else { case.arrival.get(i).copied().unwrap_or(0) };
        if d > 0 {
            ops.push(PeerOp::Sleep(d as u32));
        }
        let my_cuts: Vec<usize> = cuts.iter().copied().filter(|c| *c > rr.start && *c < rr.end).collect();
        let expect_wait = case.wait_continue && reqs[k].expect && rr.head_end < rr.end;
        if expect_wait {
            // head first, wait for the interim (or final) response, then the body
            ops.push(PeerOp::Send(rr.start, rr.head_end));
            ops.push(PeerOp::WaitOut(usize::MAX, 700));
            ops.push(PeerOp::Send(rr.head_end, rr.end));
        } else {
            let mut prev = rr.start;
            for (j, c) in my_cuts.iter().chain(std::iter::once(&rr.end)).enumerate() {
                if *c > prev {
                    ops.push(PeerOp::Send(prev, *c));
                    prev = *c;
                    if *c < rr.end {
                        match case.seg.pause {
                            0 => ops.push(PeerOp::Yield),
                            1 => ops.push(PeerOp::Sleep(1)),
                            _ => ops.push(PeerOp::Sleep((sels.get(j % sels.len().max(1)).copied().unwrap_or(1) % 4) as u32 + 1)),
                        }
                    }
                }
            }
        }
    }
    // listed finding half-close-discards-buffered-body: an EOF that arrives while received body
    // bytes are still undecoded fails that body. Bytes stay undecoded under payload back-pressure
    // (bodies >= 32 KiB) or while the pipelined-request queue is full (more than 16 requests): in
    // those classes the peer waits for the server to close instead of half-closing early.
    let big = reqs.iter().any(|r| r.body_len() >= 32_768) || (reqs.len() > 16 && reqs.iter().any(|r| r.body_len() > 0));
    if case.eof_after && !(finding_halfclose && big) {
        ops.push(PeerOp::Eof);
    } else {
        ops.push(PeerOp::WaitClose(30_000));
        ops.push(PeerOp::Eof);
    }
    let progs: Vec<HandlerProg> = idxs
        .iter()
        .filter(|&&i| !(case.expect_reject && case.reqs[i].expect))
        .map(|&i| case.progs[i].clone())
        .collect();
    let cfg = SrvCfg {
        ka: case.ka.clone(),
        write_buf: case.write_buf,
        expect_reject: case.expect_reject,
        expect_delay_ms: case.expect_delay_ms,
        ..Default::default()
    };
    let starts = rendered.reqs.iter().map(|r| r.start).collect();
    (Scenario::new(cfg, progs, rendered.bytes, ops), starts)
}

fn framing_headers(r: &ParsedResp) -> Vec<(String, String)> {
    let mut v: Vec<(String, String)> = r
        .headers
        .iter()
        .filter(|(n, _)| {
            let l = n.to_ascii_lowercase();
            l == "content-length" || l == "transfer-encoding" || l == "connection"
        })
        .map(|(n, v)| (n.to_ascii_lowercase(), v.to_ascii_lowercase()))
        .collect();
    v.sort();
    v
}

pub fn check_response(i: usize, req: &ReqSpec, e: &Expected, r: &ParsedResp, closed: bool) -> Result<(), String> {
    // only a prefix of the head made it to the wire (connection torn down under partial writes):
    // nothing of the head can be judged, only whether the message was allowed to be incomplete
    // (the same holds when the cut falls inside this request's own interim `100 Continue`, whose
    // status line the parser then reports for the unfinished message)
    let head_cut = !r.complete && (r.status == 0 || (r.status == 100 && e.continues > 0));
    if !head_cut && r.status != e.status {
        return Err(format!("response {i}: status {} but the handler program produced {}", r.status, e.status));
    }
    if head_cut {
        if e.must_terminate || e.may_complete {
            return Ok(());
        }
        return Err(format!(
            "response {i}: only a prefix of the response head is on the wire although its body program completed"
        ));
    }
    if r.version != req.version {
        return Err(format!(
            "response {i}: version HTTP/1.{} for a HTTP/1.{} request",
            r.version, req.version
        ));
    }
    if r.continues != e.continues {
        return Err(format!(
            "response {i}: preceded by {} `100 Continue` but expected {} (Expect header: {})",
            r.continues, e.continues, req.expect
        ));
    }
    if r.framing == RespFraming::ToClose && !closed {
        return Err(format!("response {i}: neither Content-Length nor chunked, yet the connection stays open"));
    }
    if e.must_terminate {
        if r.complete {
            return Err(format!(
                "response {i}: the body failed / ended short but a complete-looking message was emitted ({} body bytes, framing {:?})",
                r.body_len, r.framing
            ));
        }
        return Ok(());
    }
    if !r.complete {
        if e.may_complete {
            return Ok(());
        }
        return Err(format!(
            "response {i}: message incomplete on the wire (framing {:?}, {} body bytes) although its body program completed",
            r.framing, r.body_len
        ));
    }
    if let Some(b) = &e.body {
        if &r.body != b {
            return Err(format!(
                "response {i}: decoded body ({} bytes: {}) != body produced by the handler ({} bytes: {})",
                r.body.len(),
                util::show_bytes(&r.body, 48),
                b.len(),
                util::show_bytes(b, 48)
            ));
        }
    }
    // connection header: determined by this request and this response alone
    let says_close = r.conn_tokens().iter().any(|t| t == "close");
    let says_ka = r.conn_tokens().iter().any(|t| t == "keep-alive");
    if says_close && !e.conn_close_expected && !e.conn_close_allowed_extra {
        return Err(format!(
            "response {i}: carries `connection: close` that neither its request nor its response asked for"
        ));
    }
    if e.conn_close_expected && req.version == 1 && !says_close {
        return Err(format!("response {i}: `connection: close` expected (request/response asked for it) but absent"));
    }
    if req.version == 0 {
        let want_ka = !e.conn_close_expected;
        if says_ka && !want_ka {
            return Err(format!("response {i}: HTTP/1.0 response says keep-alive although the exchange closes"));
        }
        if !says_ka && want_ka && !says_close && !e.conn_close_allowed_extra {
            return Err(format!("response {i}: HTTP/1.0 keep-alive request answered without `connection: keep-alive`"));
        }
    } else if says_ka {
        return Err(format!("response {i}: HTTP/1.1 response carries `connection: keep-alive`"));
    }
    Ok(())
}

pub fn run_case(cfg: &RunCfg, case_in: &Case, strict: bool) -> Verdict {
    run_case_ext(cfg, case_in, strict, &|_| {}, true).0
}

/// The C02 oracle with a hook that may alter the scenario before it runs (socket behaviour,
/// peer script); returns the outcome too so that other properties can add their own checks.
pub fn run_case_ext(
    cfg: &RunCfg,
    case_in: &Case,
    strict: bool,
    alter: &dyn Fn(&mut Scenario),
    solo: bool,
) -> (Verdict, Option<Outcome>) {
    let mut out_slot: Option<Outcome> = None;
    let v = run_case_inner(cfg, case_in, strict, alter, solo, &mut out_slot);
    (v, out_slot)
}

fn run_case_inner(
    cfg: &RunCfg,
    case_in: &Case,
    strict: bool,
    alter: &dyn Fn(&mut Scenario),
    solo: bool,
    out_slot: &mut Option<Outcome>,
) -> Verdict {
    let mut case = case_in.clone();
    let mut v = Verdict::ok();
    let halfclose = !strict && cfg.kf.active("C01", "half-close-discards-buffered-body");
    if !strict {
        for i in 0..case.reqs.len() {
            if let Some(k) = pair_known(cfg, &case.reqs[i], &case.progs[i]) {
                return Verdict::excluded(k);
            }
        }
        if cfg.kf.active("C02", "codec-context-per-connection") && heterogeneous(&case.reqs) {
            // keep the pipeline homogeneous in the three attributes the codec stores per connection
            let f = case.reqs[0].clone();
            for r in case.reqs.iter_mut() {
                if f.is_head() != r.is_head() {
                    r.method = if f.is_head() { "HEAD".into() } else { "GET".into() };
                }
                r.version = f.version;
                r.conn = if f.version == 0 { ConnOpt::KeepAlive } else { ConnOpt::None };
            }
            normalize(&mut case);
            for i in 0..case.reqs.len() {
                if let Some(k) = pair_known(cfg, &case.reqs[i], &case.progs[i]) {
                    return Verdict::excluded(k);
                }
            }
            v = v.kf_skip("codec-context-per-connection");
        }
    }
    let case = &case;
    let n = case.reqs.len();
    let (mut sc, _starts) = build_scenario(case, None, halfclose);
    alter(&mut sc);
    *out_slot = Some(h1engine::run(sc));
    let out = out_slot.as_ref().unwrap();

    // ---- classification / non-triviality
    let non_fixed = case.progs.iter().zip(&case.reqs).any(|(p, r)| {
        !matches!(p.resp.body.kind, BodyKind::Bytes | BodyKind::Unit) || r.is_head() || matches!(p.resp.status, 204 | 304)
    });
    // overlap window: request i+1 was dispatched/decoded before response i was fully written
    let mut overlap = false;
    {
        let is_head: Vec<bool> = case.reqs.iter().map(|r| r.is_head()).collect();
        let parsed = httpwire::parse_responses(&out.out, &is_head, out.closed());
        for (i, r) in parsed.responses.iter().enumerate() {
            if let (Some(next), Some(t_end)) = (out.reqs.get(i + 1), out.time_of_out_offset(r.end.saturating_sub(1))) {
                if next.t_dispatch < t_end || (next.t_dispatch == t_end && case.progs[i].pre_delay_ms + case.progs[i].post_delay_ms > 0) {
                    overlap = true;
                }
            }
        }
    }
    v = v
        .nt(n >= 2 && non_fixed && overlap)
        .class_if(n >= 2, "pipelined")
        .class_if(overlap, "overlap-window-open")
        .class_if(case.reqs.iter().any(|r| r.is_head()), "has-head")
        .class_if(case.reqs.iter().any(|r| r.version == 0), "has-http10")
        .class_if(case.reqs.iter().any(|r| r.expect), "has-expect")
        .class_if(case.progs.iter().any(|p| p.resp.body.has_empty_chunk()), "empty-chunk")
        .class_if(case.progs.iter().any(|p| p.resp.body.fail_at_end), "body-fails")
        .class_if(case.progs.iter().any(|p| matches!(p.resp.body.kind, BodyKind::Echo)), "echo")
        .class_if(case.progs.iter().any(|p| is_streaming(&p.resp.body.kind)), "streaming-body")
        .class_if(case.progs.iter().any(|p| matches!(p.resp.status, 204 | 304)), "bodiless-status")
        .class_if(case.write_buf < 1024, "small-write-buf");

    if let ConnEnd::Panicked(p) = &out.end {
        return v.fail_with(format!("panic in connection task: {p}"));
    }
    // ---- the requests the handlers saw must be the pipeline's (sanity; C01 owns the details)
    let handled: Vec<usize> = (0..n).filter(|&i| !(case.expect_reject && case.reqs[i].expect)).collect();
    for (k, got) in out.reqs.iter().enumerate() {
        let Some(&i) = handled.get(k) else {
            return v.fail_with(format!("handler called {} times for {} requests", out.reqs.len(), handled.len()));
        };
        if got.target != case.reqs[i].target || got.method != case.reqs[i].method {
            return v.fail_with(format!(
                "handler call {k} saw {} {} but request {i} is {} {}",
                got.method, got.target, case.reqs[i].method, case.reqs[i].target
            ));
        }
    }
    // ---- decode the wire
    let is_head: Vec<bool> = case.reqs.iter().map(|r| r.is_head()).collect();
    let parsed = httpwire::parse_responses(&out.out, &is_head, out.closed());
    if let Some(e) = &parsed.error {
        return v.fail_with(format!("response stream is not a sequence of self-delimited messages: {e}"));
    }
    let resps = &parsed.responses;
    if resps.len() > n {
        return v.fail_with(format!("{} responses for {} requests", resps.len(), n));
    }
    let mut terminated_at: Option<usize> = None;
    for (i, r) in resps.iter().enumerate() {
        let req_body = case.reqs[i].body();
        let e = expected_for(case, i, &req_body);
        if !e.handler_called && r.status != 417 {
            return v.fail_with(format!("response {i}: expectation was rejected but status is {}", r.status));
        }
        if !r.complete && i + 1 < n && !e.must_terminate && !e.may_complete {
            // see the listed finding below: a later failing body drops what is still buffered
            let last = n - 1;
            let le = expected_for(case, last, &case.reqs[last].body());
            if (le.must_terminate || le.may_complete)
                && matches!(out.end, ConnEnd::Err(_))
                && out.reqs.len() == handled.len()
                && !cfg.strict
                && cfg.kf.active("C02", "body-error-discards-buffered-responses")
            {
                v = v.kf_skip("body-error-discards-buffered-responses");
                terminated_at = Some(i);
                break;
            }
        }
        if let Err(msg) = check_response(i, &case.reqs[i], &e, r, out.closed()) {
            return v.fail_with(msg);
        }
        if !r.complete {
            if i + 1 != resps.len() {
                return v.fail_with(format!("response {i} is incomplete but further bytes follow"));
            }
            terminated_at = Some(i);
        }
        if e.must_terminate {
            terminated_at = Some(i);
            if !out.closed() || matches!(out.end, ConnEnd::Stalled) {
                return v.fail_with(format!(
                    "response {i}: body failed/ended short but the connection was not terminated (end={:?})",
                    out.end
                ));
            }
            // ... and terminated because of the failure, not by a keep-alive expiry or the peer's
            // own close some time later (until then a client would wait for the missing bytes or
            // take the next response's bytes for them)
            if let Some(t_drop) = handled.iter().position(|&h| h == i).and_then(|k| out.resps.get(k)).and_then(|r| r.dropped_at) {
                // (what is already encoded may first be flushed to a slow peer)
                if out.end_at > t_drop + out.blocked_ms + 200 {
                    return v.fail_with(format!(
                        "response {i}: body failed/ended short at {t_drop} ms but the connection lived on until {} ms (end={:?})",
                        out.end_at, out.end
                    ));
                }
            }
        }
    }
    // a response whose body failed / ended short may be missing altogether (its head was still
    // buffered when the connection was torn down)
    if terminated_at.is_none() && resps.len() < n {
        let mut i = resps.len();
        // Listed finding: when the failing response is torn down, complete earlier responses that
        // were still in the write buffer are discarded with it. While listed, the failing
        // response may take the not-yet-flushed responses before it along.
        let last = n - 1;
        let le = expected_for(case, last, &case.reqs[last].body());
        if i < last
            && (le.must_terminate || le.may_complete)
            && le.handler_called
            && out.reqs.len() == handled.len()
            && out.reqs.iter().all(|r| r.t_return.is_some())
            && matches!(out.end, ConnEnd::Err(_))
        {
            if !cfg.strict && cfg.kf.active("C02", "body-error-discards-buffered-responses") {
                v = v.kf_skip("body-error-discards-buffered-responses");
                i = last;
            } else {
                return v.fail_with(format!(
                    "responses {i}..{last} were produced by their handlers but never written: the failure of response {last}'s body tore the connection down while earlier complete responses were still buffered"
                ));
            }
        }
        let e = expected_for(case, i, &case.reqs[i].body());
        if (e.must_terminate || e.may_complete) && e.handler_called {
            terminated_at = Some(i);
            if !out.closed() || matches!(out.end, ConnEnd::Stalled) {
                return v.fail_with(format!(
                    "response {i}: body failed/ended short but the connection was not terminated (end={:?})",
                    out.end
                ));
            }
        }
    }
    // ---- every request whose handler returned must be answered (unless terminated earlier)
    if terminated_at.is_none() && !matches!(out.end, ConnEnd::Stalled) {
        // which requests were "due": handled ones whose handler returned, plus rejected ones before them
        let returned = out.reqs.iter().filter(|r| r.t_return.is_some()).count();
        let due = if returned == handled.len() {
            n
        } else {
            handled.get(returned).copied().unwrap_or(n)
        };
        // a close-inducing response legitimately ends the sequence early
        let first_close = resps.iter().position(|r| r.announces_close());
        let need = match first_close {
            Some(p) => (p + 1).min(due),
            None => due,
        };
        if resps.len() < need {
            // the peer half-closing does not excuse dropping an in-flight response
            return v.fail_with(format!(
                "{} of {} requests whose handlers completed were answered (connection end: {:?})",
                resps.len(),
                need,
                out.end
            ));
        }
    }
    if matches!(out.end, ConnEnd::Stalled) {
        v = v.class("stalled-not-judged-here");
    }

    // ---- independence: the same request alone on a fresh connection
    if solo && n >= 2 && terminated_at.is_none() {
        let i = util::pick_idx(case.solo_sel, n);
        if i < resps.len() && resps[i].complete {
            let (sc, _) = build_scenario(case, Some(i), halfclose);
            let solo_out: Outcome = h1engine::run(sc);
            let sp = httpwire::parse_responses(&solo_out.out, &[case.reqs[i].is_head()], solo_out.closed());
            if let (None, Some(s)) = (&sp.error, sp.responses.first()) {
                if s.complete {
                    let a = &resps[i];
                    let mut fa = framing_headers(a);
                    let mut fs = framing_headers(s);
                    // allowed difference: `close` added for request i's own unread body
                    let e = expected_for(case, i, &case.reqs[i].body());
                    if e.conn_close_allowed_extra {
                        fa.retain(|h| h.0 != "connection");
                        fs.retain(|h| h.0 != "connection");
                    }
                    if a.status != s.status || a.version != s.version || a.body != s.body || fa != fs {
                        return v.fail_with(format!(
                            "independence: response {i} inside the pipeline (status {} v1.{} framing {:?} body {} bytes) differs from the same request alone (status {} v1.{} framing {:?} body {} bytes)",
                            a.status, a.version, fa, a.body.len(), s.status, s.version, fs, s.body.len()
                        ));
                    }
                    v = v.class("solo-compared");
                }
            }
        }
    }
    v
}

pub fn run(cfg: &RunCfg) -> Report {
    let mut rep = Report::new("C02");
    rep.rule = "cases = pipeline of 1-5 valid requests (GET/HEAD/POST/PUT, HTTP/1.0 and 1.1, Connection options, Expect) x per-request handler program (delays, body reading, status incl. 204/304, body kind: unit/Bytes/SizedStream exact-short-long/BodyStream/custom MessageBody with size hints, empty chunks, Pending patterns, error at end/echo of the request body; user Content-Length/Transfer-Encoding headers, no_chunking, force_close) x arrival delays x segmentation x write-buffer size x keep-alive config; phase long-pipeline: 17-48 small requests, all on the wire before the first (slow, 20-300 ms) handler answers; \
                non-trivial = >=2 requests, a non-fixed-size body kind or HEAD/204/304 present, and the overlap window (request i+1 dispatched before response i fully written) was open; distinct by hash of the case"
        .into();
    rep.assumptions = vec![
        "independent strict RFC 7230 client parser written in the harness decodes the wire".into(),
        "only the last request of a pipeline may close the connection, leave its body unread or have a failing/short body (close discipline is C03's)".into(),
        "domain exclusions: no_chunking only with a streaming body of exactly the announced length; BodySize::None bodies only with 204/304; no Upgrade/101; Expect only on HTTP/1.1 requests with a body".into(),
    ];
    runner::replay_pinned(&mut rep, cfg, &replay);
    runner::replay_regress(&mut rep, cfg, &replay);
    explore(&mut rep, cfg, "pipeline", cfg.cases(400_000, 6_000_000), case_strategy, |c| run_case(cfg, c, false));
    explore(&mut rep, cfg, "long-pipeline", cfg.cases(20_000, 300_000), case_strategy_long, |c| run_case(cfg, c, false).class("long-pipeline"));
    rep
}

pub fn replay(cfg: &RunCfg, _phase: &str, case: &serde_json::Value) -> Result<Verdict, String> {
    let c: Case = runner::from_json(case)?;
    Ok(run_case(cfg, &c, cfg.strict))
}
