//! Shared proptest strategies for HTTP/1 cases (requests, pipelines, segmentations, handler and
//! body programs).

use proptest::{collection::vec, prelude::*, sample::select};
use serde::{Deserialize, Serialize};

use crate::{
    h1engine::{BodyKind, BodyProg, ChunkProg, CustomHint, HandlerProg, ReadProg, RespProg},
    httpwire::{ChunkSpec, ConnOpt, Framing, Marks, ReqSpec},
    simnet::PeerOp,
    util::pick_idx,
};

pub fn from_chars(chars: &'static str, min: usize, max: usize) -> impl Strategy<Value = String> {
    let cs: Vec<char> = chars.chars().collect();
    vec(select(cs), min..=max).prop_map(|v| v.into_iter().collect())
}

pub fn method(with_head: bool) -> impl Strategy<Value = String> {
    let mut m = vec![
        (10, "GET"),
        (6, "POST"),
        (3, "PUT"),
        (2, "DELETE"),
        (1, "PATCH"),
        (1, "OPTIONS"),
        (1, "QUERY"),
        (1, "M-SEARCH"),
    ];
    if with_head {
        m.push((5, "HEAD"));
    }
    let total: u32 = m.iter().map(|x| x.0).sum();
    (0..total).prop_map(move |mut r| {
        for (w, name) in &m {
            if r < *w {
                return name.to_string();
            }
            r -= w;
        }
        "GET".to_string()
    })
}

pub fn target() -> impl Strategy<Value = String> {
    (
        vec(from_chars("abcxyz019-._~%20", 0, 8), 1..4),
        proptest::option::weighted(0.3, from_chars("abc=&+019", 0, 10)),
    )
        .prop_map(|(segs, q)| {
            let mut t = String::new();
            for s in segs {
                t.push('/');
                // keep "%" only as part of a valid escape
                t.push_str(&s.replace('%', "%41"));
            }
            if let Some(q) = q {
                t.push('?');
                t.push_str(&q);
            }
            t
        })
}

const HDR_NAMES: &[&str] = &[
    "Host",
    "host",
    "User-Agent",
    "accept",
    "Accept",
    "X-Custom",
    "x-custom",
    "X-A",
    "Cookie",
    "cookie",
    "Content-Type",
    "X-Forwarded-For",
    "Referer",
    "x-b-c-d",
];

pub fn extra_header() -> impl Strategy<Value = (String, String)> {
    (
        select(HDR_NAMES.to_vec()),
        from_chars("abcXYZ019 ,;=/*.-_\"()", 0, 24),
    )
        .prop_map(|(n, v)| (n.to_string(), v.trim().to_string()))
}

pub fn chunk_spec(max: u32) -> impl Strategy<Value = ChunkSpec> {
    (
        prop_oneof![
            6 => 1u32..64,
            3 => 64u32..2048,
            1 => 2048u32..max.max(2049),
        ],
        proptest::option::weighted(0.2, from_chars("abc=\"019 ", 0, 8)),
        any::<bool>(),
        prop_oneof![4 => Just(0u8), 1 => 1u8..4],
        prop_oneof![5 => Just(0u8), 1 => 1u8..3],
    )
        .prop_map(|(len, ext, upper, zeros, lws)| ChunkSpec {
            len,
            ext: ext.map(|e| e.trim_end().to_string()),
            upper,
            zeros,
            lws,
        })
}

pub fn framing(max_body: u32) -> impl Strategy<Value = Framing> {
    prop_oneof![
        4 => Just(Framing::None),
        4 => (
            prop_oneof![
                1 => Just(0u32),
                6 => 1u32..200,
                2 => 200u32..5000,
                1 => 5000u32..max_body.max(5001),
            ],
            prop_oneof![4 => Just(0u8), 1 => 1u8..4],
            0u8..9
        )
            .prop_map(|(len, zeros, ows)| Framing::Length { len, zeros, ows }),
        4 => (
            vec(chunk_spec(max_body / 3), 0..6),
            proptest::option::weighted(0.15, from_chars("abc=019", 0, 6)),
            0u8..3
        )
            .prop_map(|(chunks, last_ext, te_case)| Framing::Chunked {
                chunks,
                last_ext,
                te_case
            }),
    ]
}

#[derive(Debug, Clone, Copy)]
pub struct ReqOpts {
    pub with_head: bool,
    pub allow_close: bool,
    pub allow_http10: bool,
    pub allow_expect: bool,
    pub max_body: u32,
}

pub fn req_spec(o: ReqOpts) -> impl Strategy<Value = ReqSpec> {
    (
        method(o.with_head),
        target(),
        if o.allow_http10 {
            prop_oneof![5 => Just(1u8), 1 => Just(0u8)].boxed()
        } else {
            Just(1u8).boxed()
        },
        vec(extra_header(), 0..6),
        prop_oneof![6 => Just(0u8), 1 => Just(1u8), 2 => Just(2u8)],
        proptest::bool::weighted(0.15),
        framing(o.max_body),
        any::<u16>(),
        prop_oneof![2 => Just(0u8), 2 => Just(1u8), 1 => Just(2u8)],
        0u8..4,
    )
        .prop_map(
            move |(method, target, version, headers, conn, expect, framing, seed, style, nc)| {
                let mut r = ReqSpec {
                    method,
                    target,
                    version,
                    headers,
                    conn: match conn {
                        1 if o.allow_close => ConnOpt::Close,
                        2 => ConnOpt::KeepAlive,
                        _ => ConnOpt::None,
                    },
                    expect: expect && o.allow_expect && version == 1,
                    framing,
                    body_seed: seed as u64,
                    body_style: style,
                    name_case: nc,
                };
                fixup_req(&mut r, o);
                r
            },
        )
}

/// Make a generated request valid for the server's documented domain.
pub fn fixup_req(r: &mut ReqSpec, o: ReqOpts) {
    if r.version == 0 {
        // HTTP/1.0: no chunked; POST needs a Content-Length
        if let Framing::Chunked { chunks, .. } = &r.framing {
            let len: u32 = chunks.iter().map(|c| c.len).sum();
            r.framing = Framing::Length {
                len,
                zeros: 0,
                ows: 1,
            };
        }
        if r.method == "POST" && matches!(r.framing, Framing::None) {
            r.framing = Framing::Length {
                len: 0,
                zeros: 0,
                ows: 1,
            };
        }
        if !o.allow_close && r.conn != ConnOpt::KeepAlive {
            r.conn = ConnOpt::KeepAlive;
        }
        r.expect = false;
    }
    if r.expect && !r.has_body_framing() {
        r.expect = false;
    }
    // keep extra headers out of the framing/connection/upgrade/expect space
    r.headers.retain(|(n, _)| {
        let l = n.to_ascii_lowercase();
        !matches!(
            l.as_str(),
            "connection" | "content-length" | "transfer-encoding" | "upgrade" | "expect"
        )
    });
}

/// Does this request (by itself) make the server close the connection after its response?
pub fn closes_connection(r: &ReqSpec, ka_enabled: bool) -> bool {
    if !ka_enabled {
        return true;
    }
    match r.conn {
        ConnOpt::Close => true,
        ConnOpt::KeepAlive => false,
        ConnOpt::None => r.version == 0,
    }
}

// ------------------------------------------------------------------------------------------
// Segmentation
// ------------------------------------------------------------------------------------------

#[derive(Debug, Clone, Serialize, Deserialize, PartialEq, Eq, Hash)]
pub struct Cut {
    /// 0 anywhere, 1 in head, 2 between CR and LF, 3 in chunk-size line, 4 in body, 5 at a
    /// message boundary
    pub kind: u8,
    pub sel: u16,
}

#[derive(Debug, Clone, Serialize, Deserialize, PartialEq, Eq, Hash)]
pub struct SegSpec {
    pub cuts: Vec<Cut>,
    /// deliver one byte per read (only honoured for streams up to 3000 bytes)
    pub one_byte: bool,
    /// 0: `yield_now` between segments; 1: sleep 1 ms; 2: sleep (sel % 5) ms
    pub pause: u8,
}

impl SegSpec {
    pub fn whole() -> Self {
        SegSpec {
            cuts: vec![],
            one_byte: false,
            pause: 0,
        }
    }
}

pub fn seg_spec() -> impl Strategy<Value = SegSpec> {
    (
        vec(
            (
                prop_oneof![3 => Just(0u8), 2 => Just(1u8), 2 => Just(2u8), 2 => Just(3u8), 1 => Just(4u8), 2 => Just(5u8)],
                any::<u16>(),
            )
                .prop_map(|(kind, sel)| Cut { kind, sel }),
            0..10,
        ),
        proptest::bool::weighted(0.12),
        0u8..3,
    )
        .prop_map(|(cuts, one_byte, pause)| SegSpec {
            cuts,
            one_byte,
            pause,
        })
}

/// Resolve a segmentation into sorted distinct cut offsets in (0, len).
pub fn resolve_cuts(seg: &SegSpec, marks: &Marks, len: usize) -> Vec<usize> {
    if len < 2 {
        return vec![];
    }
    if seg.one_byte && len <= 3000 {
        return (1..len).collect();
    }
    let mut out = vec![];
    for c in &seg.cuts {
        let pool: &[usize] = match c.kind {
            1 => &marks.in_head,
            2 => &marks.in_crlf,
            3 => &marks.in_chunk_size,
            4 => &marks.in_body,
            5 => &marks.boundaries,
            _ => &[],
        };
        let p = if pool.is_empty() {
            1 + pick_idx(c.sel, len - 1)
        } else {
            pool[pick_idx(c.sel, pool.len())]
        };
        if p > 0 && p < len {
            out.push(p);
        }
    }
    out.sort_unstable();
    out.dedup();
    out
}

/// Peer ops delivering `len` bytes cut at `cuts`, pausing between segments per `pause`.
pub fn seg_ops(cuts: &[usize], len: usize, pause: u8, sels: &[u16]) -> Vec<PeerOp> {
    let mut ops = vec![];
    let mut prev = 0;
    let mut i = 0usize;
    for &c in cuts.iter().chain(std::iter::once(&len)) {
        if c > prev {
            ops.push(PeerOp::Send(prev, c));
            prev = c;
            if c < len {
                match pause {
                    0 => ops.push(PeerOp::Yield),
                    1 => ops.push(PeerOp::Sleep(1)),
                    _ => {
                        let s = sels.get(i % sels.len().max(1)).copied().unwrap_or(0) % 5;
                        if s == 0 {
                            ops.push(PeerOp::Yield)
                        } else {
                            ops.push(PeerOp::Sleep(s as u32))
                        }
                    }
                }
            }
            i += 1;
        }
    }
    ops
}

pub fn cut_touches(cuts: &[usize], pool: &[usize]) -> bool {
    // both sorted
    let mut j = 0;
    for c in cuts {
        while j < pool.len() && pool[j] < *c {
            j += 1;
        }
        if j < pool.len() && pool[j] == *c {
            return true;
        }
    }
    false
}

// ------------------------------------------------------------------------------------------
// Handler / body programs
// ------------------------------------------------------------------------------------------

pub fn chunk_prog(max_len: u32, allow_empty: bool) -> impl Strategy<Value = ChunkProg> {
    let len = if allow_empty {
        prop_oneof![
            2 => Just(0u32),
            8 => 1u32..100,
            3 => 100u32..3000,
            1 => 3000u32..max_len.max(3001),
        ]
        .boxed()
    } else {
        prop_oneof![
            8 => 1u32..100,
            3 => 100u32..3000,
            1 => 3000u32..max_len.max(3001),
        ]
        .boxed()
    };
    (
        len,
        prop_oneof![6 => Just(0u8), 2 => 1u8..4],
        prop_oneof![6 => Just(0u16), 2 => 1u16..30, 1 => 30u16..400],
    )
        .prop_map(|(len, pending, delay_ms)| ChunkProg {
            len,
            pending,
            delay_ms,
        })
}

#[derive(Debug, Clone, Copy)]
pub struct BodyOpts {
    pub max_chunk: u32,
    pub allow_empty_chunks: bool,
    pub allow_fail: bool,
    pub allow_mismatch: bool,
    pub allow_echo: bool,
}

pub fn body_prog(o: BodyOpts) -> impl Strategy<Value = BodyProg> {
    (
        0u8..12,
        vec(chunk_prog(o.max_chunk, o.allow_empty_chunks), 0..6),
        proptest::bool::weighted(if o.allow_fail { 0.08 } else { 0.0 }),
        any::<u16>(),
        prop_oneof![2 => Just(0u8), 3 => Just(1u8)],
        // declared-size perturbation for sized kinds: 0 exact, 1 short, 2 long
        prop_oneof![6 => Just(0u8), 1 => Just(1u8), 1 => Just(2u8)],
        1u32..50,
    )
        .prop_map(move |(k, chunks, fail, seed, style, mism, delta)| {
            let total: u32 = chunks.iter().map(|c| c.len).sum();
            let declared = if !o.allow_mismatch {
                total
            } else {
                match mism {
                    1 => total.saturating_sub(delta.min(total)),
                    2 => total + delta,
                    _ => total,
                }
            };
            let kind = match k {
                0 => BodyKind::Unit,
                1 | 2 | 3 => BodyKind::Bytes,
                4 | 5 => BodyKind::SizedStream(declared),
                6 | 7 => BodyKind::Stream,
                8 => BodyKind::Custom(CustomHint::Sized(declared)),
                9 => BodyKind::Custom(CustomHint::Stream),
                10 => BodyKind::Custom(CustomHint::None),
                _ => {
                    if o.allow_echo {
                        BodyKind::Echo
                    } else {
                        BodyKind::Stream
                    }
                }
            };
            let fail_at_end = fail
                && matches!(
                    kind,
                    BodyKind::SizedStream(_) | BodyKind::Stream | BodyKind::Custom(_)
                )
                && !matches!(kind, BodyKind::Custom(CustomHint::None));
            BodyProg {
                kind,
                chunks,
                fail_at_end,
                seed: seed as u64,
                style,
            }
        })
}

pub fn resp_prog(o: BodyOpts) -> impl Strategy<Value = RespProg> {
    (
        prop_oneof![
            10 => Just(200u16),
            1 => Just(201u16),
            2 => Just(204u16),
            1 => Just(206u16),
            1 => Just(301u16),
            2 => Just(304u16),
            1 => Just(400u16),
            1 => Just(404u16),
            1 => Just(500u16),
        ],
        proptest::bool::weighted(0.1),
        proptest::bool::weighted(0.1),
        proptest::option::weighted(0.1, 0u32..300),
        proptest::bool::weighted(0.06),
        proptest::bool::weighted(0.08),
        vec(
            (
                select(vec!["x-r", "X-Trace", "content-type", "set-cookie", "cache-control"]),
                from_chars("abc019=; /-", 0, 16),
            )
                .prop_map(|(n, v)| (n.to_string(), v.trim().to_string())),
            0..3,
        ),
        body_prog(o),
    )
        .prop_map(
            |(status, force_close, keep_alive, user_cl, user_te, no_chunking, headers, body)| {
                RespProg {
                    status,
                    force_close,
                    keep_alive: keep_alive && !force_close,
                    user_cl,
                    user_te,
                    // documented contract: no_chunking(len) is used with a streaming body of
                    // exactly len bytes
                    no_chunking: no_chunking
                        && matches!(
                            body.kind,
                            BodyKind::Stream | BodyKind::Custom(CustomHint::Stream)
                        )
                        && !body.fail_at_end,
                    headers,
                    body,
                }
            },
        )
}

pub fn read_prog() -> impl Strategy<Value = ReadProg> {
    prop_oneof![
        6 => Just(ReadProg::All),
        2 => (0u32..5000).prop_map(ReadProg::UpTo),
        1 => Just(ReadProg::Hold),
        2 => Just(ReadProg::DropNow),
    ]
}

pub fn delay(p_zero: u32) -> impl Strategy<Value = u16> {
    prop_oneof![
        p_zero => Just(0u16),
        3 => 1u16..20,
        2 => 20u16..300,
        1 => 300u16..1500,
    ]
}

pub fn handler_prog(o: BodyOpts, read_all: bool) -> impl Strategy<Value = HandlerProg> {
    (
        delay(6),
        if read_all {
            Just(ReadProg::All).boxed()
        } else {
            read_prog().boxed()
        },
        prop_oneof![8 => Just(0u16), 1 => 1u16..10],
        delay(8),
        proptest::bool::weighted(0.04),
        resp_prog(o),
    )
        .prop_map(|(pre, read, pace, post, fail, resp)| HandlerProg {
            pre_yields: 0,
            pre_delay_ms: pre,
            read,
            read_pace_ms: pace,
            post_delay_ms: post,
            fail,
            resp,
        })
}
