//! Generic property runner: parallel seeded proptest workers, shrinking, replay files,
//! known-findings handling and evidence accumulation.

use std::{
    cell::{Cell, RefCell},
    collections::{BTreeMap, HashSet},
    fmt::Debug,
    path::{Path, PathBuf},
    sync::{
        atomic::{AtomicBool, Ordering},
        Mutex,
    },
    time::Instant,
};

use proptest::{
    strategy::Strategy,
    test_runner::{Config, RngAlgorithm, TestCaseError, TestError, TestRng, TestRunner},
};
use serde::{de::DeserializeOwned, Deserialize, Serialize};

use crate::util;

#[derive(Clone, Copy, Debug, PartialEq, Eq)]
pub enum Tier {
    Quick,
    Thorough,
}

impl Tier {
    pub fn name(self) -> &'static str {
        match self {
            Tier::Quick => "quick",
            Tier::Thorough => "thorough",
        }
    }
    /// pick a count by tier
    pub fn n(self, quick: u64, thorough: u64) -> u64 {
        match self {
            Tier::Quick => quick,
            Tier::Thorough => thorough,
        }
    }
}

#[derive(Clone, Debug, Deserialize, Serialize)]
pub struct Finding {
    pub property: String,
    pub id: String,
    pub what: String,
    #[serde(default)]
    pub pinned_case: Option<String>,
}

#[derive(Clone, Debug, Default, Deserialize, Serialize)]
pub struct KnownFindings {
    #[serde(default)]
    pub findings: Vec<Finding>,
    #[serde(default)]
    pub fixed: Vec<String>,
}

impl KnownFindings {
    pub fn load(root: &Path) -> Self {
        let p = root.join("known_findings.json");
        match std::fs::read_to_string(&p) {
            Ok(s) => serde_json::from_str(&s).unwrap_or_else(|e| {
                eprintln!("vp: cannot parse {}: {e}", p.display());
                std::process::exit(2);
            }),
            Err(_) => KnownFindings::default(),
        }
    }
    pub fn active(&self, property: &str, id: &str) -> bool {
        self.findings
            .iter()
            .any(|f| f.property == property && f.id == id)
    }
    pub fn for_property(&self, property: &str) -> Vec<Finding> {
        self.findings
            .iter()
            .filter(|f| f.property == property)
            .cloned()
            .collect()
    }
}

#[derive(Clone)]
pub struct RunCfg {
    pub tier: Tier,
    pub seed: u64,
    pub workers: usize,
    pub root: PathBuf,
    pub kf: KnownFindings,
    /// scale factor on case counts (VP_SCALE env; default 1.0) — for experiments only
    pub scale: f64,
    /// strict mode: no known-finding exclusion is applied (used to replay pinned cases)
    pub strict: bool,
}

impl RunCfg {
    pub fn cases(&self, quick: u64, thorough: u64) -> u64 {
        ((self.tier.n(quick, thorough) as f64) * self.scale).max(1.0) as u64
    }
}

/// Result of running one case.
#[derive(Debug, Default, Clone)]
pub struct Verdict {
    pub fail: Option<String>,
    pub nontrivial: bool,
    pub classes: Vec<&'static str>,
    /// `Some(finding id)`: the case belongs to a listed known finding and was not executed.
    pub excluded: Option<String>,
    /// optional distinctness key override (default: hash of the case's JSON)
    pub key: Option<u64>,
    /// sub-checks of this case that were not evaluated because a listed finding covers exactly
    /// that (input class, sub-check) pair; the rest of the oracle still ran
    pub kf_skips: Vec<String>,
    /// a case that stands for a whole enumerated sub-space: number of members evaluated (0 = this
    /// is a single case) and how many of them were non-trivial (distinct by construction)
    pub sub_evals: u64,
    pub sub_nt: u64,
    /// the exact failing member, to be written as the replay instead of the enclosing case
    pub repro: Option<serde_json::Value>,
}

impl Verdict {
    pub fn ok() -> Self {
        Verdict::default()
    }
    pub fn failed(msg: impl Into<String>) -> Self {
        Verdict {
            fail: Some(msg.into()),
            ..Default::default()
        }
    }
    pub fn excluded(id: &str) -> Self {
        Verdict {
            excluded: Some(id.to_string()),
            ..Default::default()
        }
    }
    pub fn nt(mut self, b: bool) -> Self {
        self.nontrivial = b;
        self
    }
    pub fn class(mut self, c: &'static str) -> Self {
        self.classes.push(c);
        self
    }
    pub fn class_if(mut self, cond: bool, c: &'static str) -> Self {
        if cond {
            self.classes.push(c);
        }
        self
    }
    pub fn fail_with(mut self, msg: impl Into<String>) -> Self {
        if self.fail.is_none() {
            self.fail = Some(msg.into());
        }
        self
    }
    pub fn is_fail(&self) -> bool {
        self.fail.is_some()
    }
    pub fn kf_skip(mut self, id: &str) -> Self {
        self.kf_skips.push(id.to_string());
        self
    }
}

#[derive(Debug, Clone, Serialize, Deserialize)]
pub struct ReplayFile {
    pub property: String,
    pub phase: String,
    #[serde(default)]
    pub reason: String,
    pub case: serde_json::Value,
}

#[derive(Debug, Clone)]
pub struct Violation {
    pub phase: String,
    pub reason: String,
    pub replay: String,
}

#[derive(Debug, Clone, Serialize)]
pub struct PhaseInfo {
    pub name: String,
    pub evaluations: u64,
    pub nontrivial_distinct: u64,
    pub exhaustive: bool,
    pub wall_s: f64,
}

pub struct Report {
    pub id: &'static str,
    pub level: &'static str,
    pub evaluations: u64,
    pub nt_keys: HashSet<u64>,
    pub classes: BTreeMap<String, u64>,
    pub excluded: BTreeMap<String, u64>,
    pub samples: Vec<serde_json::Value>,
    pub violations: Vec<Violation>,
    pub known_lines: Vec<String>,
    pub phases: Vec<PhaseInfo>,
    pub rule: String,
    pub assumptions: Vec<String>,
    pub exhaustive: bool,
    pub extra: BTreeMap<String, serde_json::Value>,
    pub infra_error: Option<String>,
    /// non-trivial members of enumerated sub-spaces (distinct by construction, not hashed)
    pub extra_nt: u64,
}

impl Report {
    pub fn new(id: &'static str) -> Self {
        Report {
            id,
            level: "exploration",
            evaluations: 0,
            nt_keys: HashSet::new(),
            classes: BTreeMap::new(),
            excluded: BTreeMap::new(),
            samples: Vec::new(),
            violations: Vec::new(),
            known_lines: Vec::new(),
            phases: Vec::new(),
            rule: String::new(),
            assumptions: Vec::new(),
            exhaustive: false,
            extra: BTreeMap::new(),
            infra_error: None,
            extra_nt: 0,
        }
    }
}

struct WorkerStats {
    evaluations: u64,
    nt_keys: HashSet<u64>,
    classes: BTreeMap<String, u64>,
    excluded: BTreeMap<String, u64>,
    samples: Vec<(usize, serde_json::Value)>,
}

fn seed_bytes(seed: u64, phase: &str, worker: u64) -> [u8; 32] {
    let mut out = [0u8; 32];
    let h1 = util::hash_of(&(seed, phase, worker, 1u8));
    let h2 = util::hash_of(&(seed, phase, worker, 2u8));
    let h3 = util::hash_of(&(seed, phase, worker, 3u8));
    let h4 = util::hash_of(&(seed, phase, worker, 4u8));
    out[0..8].copy_from_slice(&h1.to_le_bytes());
    out[8..16].copy_from_slice(&h2.to_le_bytes());
    out[16..24].copy_from_slice(&h3.to_le_bytes());
    out[24..32].copy_from_slice(&h4.to_le_bytes());
    out
}

fn case_key<C: Serialize>(c: &C) -> (u64, usize) {
    let s = serde_json::to_vec(c).unwrap_or_default();
    (util::hash_bytes(&s), s.len())
}

/// Write a replay file and return its path (relative to the /verif root when possible).
pub fn write_replay<C: Serialize>(
    cfg: &RunCfg,
    id: &str,
    phase: &str,
    reason: &str,
    case: &C,
) -> String {
    let val = serde_json::to_value(case).unwrap_or(serde_json::Value::Null);
    let rf = ReplayFile {
        property: id.to_string(),
        phase: phase.to_string(),
        reason: reason.to_string(),
        case: val,
    };
    let text = serde_json::to_string_pretty(&rf).unwrap();
    let h = util::hash_bytes(serde_json::to_string(&rf.case).unwrap().as_bytes());
    let dir = cfg.root.join("replays");
    let _ = std::fs::create_dir_all(&dir);
    let path = dir.join(format!("{id}-{phase}-{h:016x}.json"));
    let _ = std::fs::write(&path, text);
    path.display().to_string()
}

fn run_guarded<C>(run: &(impl Fn(&C) -> Verdict + Sync), case: &C) -> Verdict {
    match util::catch(|| run(case)) {
        Ok(v) => v,
        Err(p) => Verdict::failed(p),
    }
}

/// Explore `total` generated cases of `mk()` split over the workers; shrink and record failures.
pub fn explore<C, S>(
    rep: &mut Report,
    cfg: &RunCfg,
    phase: &str,
    total: u64,
    mk: impl Fn() -> S + Sync,
    run: impl Fn(&C) -> Verdict + Sync,
) where
    S: Strategy<Value = C>,
    C: Serialize + Clone + Debug + Send,
{
    let t0 = Instant::now();
    let workers = cfg.workers.max(1) as u64;
    let per = total.div_ceil(workers).max(1);
    let stop = AtomicBool::new(false);
    let results: Mutex<Vec<(u64, WorkerStats, Option<(String, C)>)>> = Mutex::new(Vec::new());
    let max_shrink: u32 = std::env::var("VP_MAX_SHRINK")
        .ok()
        .and_then(|s| s.parse().ok())
        .unwrap_or(600);

    std::thread::scope(|scope| {
        for w in 0..workers {
            let stop = &stop;
            let results = &results;
            let mk = &mk;
            let run = &run;
            std::thread::Builder::new()
                .stack_size(64 << 20)
                .spawn_scoped(scope, move || {
                    util::install_quiet_panic_hook();
                    let stats = RefCell::new(WorkerStats {
                        evaluations: 0,
                        nt_keys: HashSet::new(),
                        classes: BTreeMap::new(),
                        excluded: BTreeMap::new(),
                        samples: Vec::new(),
                    });
                    let failed = Cell::new(false);
                    let config = Config {
                        cases: per as u32,
                        failure_persistence: None,
                        max_shrink_iters: max_shrink,
                        max_global_rejects: 1_000_000,
                        max_local_rejects: 1_000_000,
                        ..Config::default()
                    };
                    let rng =
                        TestRng::from_seed(RngAlgorithm::ChaCha, &seed_bytes(cfg.seed, phase, w));
                    let mut runner = TestRunner::new_with_rng(config, rng);
                    let strat = mk();
                    let res = runner.run(&strat, |case: C| {
                        if !failed.get() && stop.load(Ordering::Relaxed) {
                            return Ok(());
                        }
                        let v = run_guarded(run, &case);
                        if !failed.get() {
                            let mut st = stats.borrow_mut();
                            if let Some(id) = &v.excluded {
                                *st.excluded.entry(id.clone()).or_default() += 1;
                            } else {
                                st.evaluations += if v.sub_evals > 0 { v.sub_evals } else { 1 };
                                for c in &v.classes {
                                    *st.classes.entry((*c).to_string()).or_default() += 1;
                                }
                                for k in &v.kf_skips {
                                    *st.excluded.entry(format!("{k} (sub-check only)")).or_default() += 1;
                                }
                                if v.nontrivial {
                                    let (k, len) = case_key(&case);
                                    let k = v.key.unwrap_or(k);
                                    if st.nt_keys.insert(k) {
                                        // keep first, and replace "largest" slot
                                        if st.samples.is_empty() {
                                            st.samples.push((
                                                len,
                                                serde_json::to_value(&case).unwrap_or_default(),
                                            ));
                                        } else if st.samples.len() < 2 {
                                            st.samples.push((
                                                len,
                                                serde_json::to_value(&case).unwrap_or_default(),
                                            ));
                                        } else if st.samples[1].0 < len && len < 6000 {
                                            st.samples[1] = (
                                                len,
                                                serde_json::to_value(&case).unwrap_or_default(),
                                            );
                                        }
                                    }
                                }
                            }
                        }
                        if let Some(msg) = v.fail {
                            failed.set(true);
                            stop.store(true, Ordering::Relaxed);
                            return Err(TestCaseError::fail(msg));
                        }
                        Ok(())
                    });
                    let failure = match res {
                        Ok(()) => None,
                        Err(TestError::Fail(reason, case)) => {
                            Some((reason.message().to_string(), case))
                        }
                        Err(TestError::Abort(reason)) => {
                            eprintln!("vp: worker {w} aborted: {reason}");
                            None
                        }
                    };
                    results
                        .lock()
                        .unwrap()
                        .push((w, stats.into_inner(), failure));
                })
                .expect("spawn worker");
        }
    });

    let mut results = results.into_inner().unwrap();
    results.sort_by_key(|r| r.0);
    let mut evals = 0;
    let before_nt = rep.nt_keys.len();
    for (_, st, failure) in results {
        evals += st.evaluations;
        rep.nt_keys.extend(st.nt_keys);
        for (k, v) in st.classes {
            *rep.classes.entry(format!("{phase}:{k}")).or_default() += v;
        }
        for (k, v) in st.excluded {
            *rep.excluded.entry(k).or_default() += v;
        }
        for (_, s) in st.samples {
            if rep.samples.len() < 6 {
                rep.samples
                    .push(serde_json::json!({"phase": phase, "case": s}));
            }
        }
        if let Some((reason, case)) = failure {
            // re-run the minimal case once to get its own message (shrinking may have changed it)
            let v = run_guarded(&run, &case);
            let reason = v.fail.unwrap_or(reason);
            let replay = write_replay(cfg, rep.id, phase, &reason, &case);
            rep.violations.push(Violation {
                phase: phase.to_string(),
                reason,
                replay,
            });
        }
    }
    rep.evaluations += evals;
    rep.phases.push(PhaseInfo {
        name: phase.to_string(),
        evaluations: evals,
        nontrivial_distinct: (rep.nt_keys.len() - before_nt) as u64,
        exhaustive: false,
        wall_s: t0.elapsed().as_secs_f64(),
    });
}

/// Run an explicit (enumerated) list of cases in parallel. `exhaustive` marks the phase as a
/// complete enumeration of the stated finite space.
pub fn enumerate<C>(
    rep: &mut Report,
    cfg: &RunCfg,
    phase: &str,
    exhaustive: bool,
    cases: Vec<C>,
    run: impl Fn(&C) -> Verdict + Sync,
) where
    C: Serialize + Clone + Debug + Sync + Send,
{
    let t0 = Instant::now();
    let workers = cfg.workers.max(1);
    let chunk = cases.len().div_ceil(workers).max(1);
    let results: Mutex<Vec<(usize, WorkerStats, Option<(String, C, Option<serde_json::Value>)>, u64)>> = Mutex::new(Vec::new());
    std::thread::scope(|scope| {
        for (w, part) in cases.chunks(chunk).enumerate() {
            let results = &results;
            let run = &run;
            std::thread::Builder::new()
                .stack_size(64 << 20)
                .spawn_scoped(scope, move || {
                    util::install_quiet_panic_hook();
                    let mut st = WorkerStats {
                        evaluations: 0,
                        nt_keys: HashSet::new(),
                        classes: BTreeMap::new(),
                        excluded: BTreeMap::new(),
                        samples: Vec::new(),
                    };
                    let mut failure = None;
                    let mut sub_nt = 0u64;
                    for case in part {
                        let v = run_guarded(run, case);
                        if let Some(id) = &v.excluded {
                            *st.excluded.entry(id.clone()).or_default() += 1;
                            continue;
                        }
                        st.evaluations += if v.sub_evals > 0 { v.sub_evals } else { 1 };
                        sub_nt += v.sub_nt;
                        for c in &v.classes {
                            *st.classes.entry((*c).to_string()).or_default() += 1;
                        }
                        for k in &v.kf_skips {
                            *st.excluded.entry(format!("{k} (sub-check only)")).or_default() += 1;
                        }
                        if v.nontrivial {
                            let (k, len) = case_key(case);
                            if st.nt_keys.insert(v.key.unwrap_or(k)) && st.samples.len() < 2 {
                                st.samples
                                    .push((len, serde_json::to_value(case).unwrap_or_default()));
                            }
                        }
                        if let Some(msg) = v.fail {
                            if failure.is_none() {
                                failure = Some((msg, case.clone(), v.repro.clone()));
                            }
                        }
                    }
                    results.lock().unwrap().push((w, st, failure, sub_nt));
                })
                .expect("spawn worker");
        }
    });
    let mut results = results.into_inner().unwrap();
    results.sort_by_key(|r| r.0);
    let mut evals = 0;
    let before_nt = rep.nt_keys.len() as u64 + rep.extra_nt;
    for (_, st, failure, sub_nt) in results {
        evals += st.evaluations;
        rep.extra_nt += sub_nt;
        rep.nt_keys.extend(st.nt_keys);
        for (k, v) in st.classes {
            *rep.classes.entry(format!("{phase}:{k}")).or_default() += v;
        }
        for (k, v) in st.excluded {
            *rep.excluded.entry(k).or_default() += v;
        }
        for (_, s) in st.samples {
            if rep.samples.len() < 6 {
                rep.samples
                    .push(serde_json::json!({"phase": phase, "case": s}));
            }
        }
        if let Some((reason, case, repro)) = failure {
            let replay = match repro {
                Some(r) => write_replay(cfg, rep.id, phase, &reason, &r),
                None => write_replay(cfg, rep.id, phase, &reason, &case),
            };
            rep.violations.push(Violation {
                phase: phase.to_string(),
                reason,
                replay,
            });
        }
    }
    rep.evaluations += evals;
    rep.phases.push(PhaseInfo {
        name: phase.to_string(),
        evaluations: evals,
        nontrivial_distinct: rep.nt_keys.len() as u64 + rep.extra_nt - before_nt,
        exhaustive,
        wall_s: t0.elapsed().as_secs_f64(),
    });
}

/// Replay the pinned case of every listed finding of this property through `replay` (strict
/// mode); print KNOWN-FINDING lines for those that still fail.
pub fn replay_pinned(
    rep: &mut Report,
    cfg: &RunCfg,
    replay: &dyn Fn(&RunCfg, &str, &serde_json::Value) -> Result<Verdict, String>,
) {
    let strict_cfg = RunCfg {
        strict: true,
        ..cfg.clone()
    };
    for f in cfg.kf.for_property(rep.id) {
        let Some(p) = &f.pinned_case else {
            rep.known_lines
                .push(format!("KNOWN-FINDING: property={} {}", f.property, f.what));
            continue;
        };
        let path = cfg.root.join(p);
        let text = match std::fs::read_to_string(&path) {
            Ok(t) => t,
            Err(e) => {
                rep.infra_error = Some(format!("cannot read pinned case {}: {e}", path.display()));
                continue;
            }
        };
        let rf: ReplayFile = match serde_json::from_str(&text) {
            Ok(r) => r,
            Err(e) => {
                rep.infra_error = Some(format!("bad pinned case {}: {e}", path.display()));
                continue;
            }
        };
        match util::catch(|| replay(&strict_cfg, &rf.phase, &rf.case)) {
            Ok(Ok(v)) if v.is_fail() => {
                rep.known_lines.push(format!(
                    "KNOWN-FINDING: property={} {} [{}; pinned {}]",
                    f.property, f.what, f.id, p
                ));
            }
            Err(p_msg) => {
                rep.known_lines.push(format!(
                    "KNOWN-FINDING: property={} {} [{}; pinned {}; {}]",
                    f.property, f.what, f.id, p, p_msg
                ));
            }
            Ok(Ok(_)) => {
                eprintln!(
                    "vp: note: listed finding {}/{} no longer reproduces on this tree (pinned case passes); \
                     its generator exclusion is still applied until known_findings.json is updated",
                    f.property, f.id
                );
            }
            Ok(Err(e)) => {
                rep.infra_error = Some(format!("pinned case {} not replayable: {e}", p));
            }
        }
    }
}

/// Replay every committed regression case of this property (`replays/regress/<ID>-*.json`: shrunk
/// failures of defects that were repaired, and of seeded breakages) through the same oracle.
/// These bypass the generator; a failure is a violation whose replay is the file itself.
pub fn replay_regress(
    rep: &mut Report,
    cfg: &RunCfg,
    replay: &dyn Fn(&RunCfg, &str, &serde_json::Value) -> Result<Verdict, String>,
) {
    let dir = cfg.root.join("replays").join("regress");
    let Ok(rd) = std::fs::read_dir(&dir) else {
        return;
    };
    let mut files: Vec<PathBuf> = rd
        .filter_map(|e| e.ok().map(|e| e.path()))
        .filter(|p| {
            p.file_name()
                .and_then(|n| n.to_str())
                .is_some_and(|n| n.starts_with(&format!("{}-", rep.id)) && n.ends_with(".json"))
        })
        .collect();
    files.sort();
    let t0 = Instant::now();
    let mut n = 0;
    for f in files {
        let Ok(text) = std::fs::read_to_string(&f) else {
            continue;
        };
        let Ok(rf) = serde_json::from_str::<ReplayFile>(&text) else {
            rep.infra_error = Some(format!("bad regression file {}", f.display()));
            continue;
        };
        n += 1;
        let res = util::catch(|| replay(cfg, &rf.phase, &rf.case));
        let fail = match res {
            Ok(Ok(v)) => {
                if v.excluded.is_some() {
                    None
                } else {
                    if v.nontrivial {
                        rep.nt_keys.insert(util::hash_bytes(text.as_bytes()));
                    }
                    v.fail
                }
            }
            Ok(Err(e)) => {
                rep.infra_error = Some(format!("regression file {} not replayable: {e}", f.display()));
                None
            }
            Err(p) => Some(p),
        };
        if let Some(reason) = fail {
            rep.violations.push(Violation {
                phase: "regress".into(),
                reason,
                replay: f.display().to_string(),
            });
        }
    }
    rep.evaluations += n;
    rep.phases.push(PhaseInfo {
        name: "regress".into(),
        evaluations: n,
        nontrivial_distinct: 0,
        exhaustive: false,
        wall_s: t0.elapsed().as_secs_f64(),
    });
}

pub fn from_json<C: DeserializeOwned>(v: &serde_json::Value) -> Result<C, String> {
    serde_json::from_value(v.clone()).map_err(|e| format!("case does not deserialize: {e}"))
}
