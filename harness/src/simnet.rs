//! E1 part 1 — scripted in-memory socket.
//!
//! `SimIo` implements `AsyncRead + AsyncWrite` over shared state that a *peer task* drives from a
//! script. Read segmentation, `Pending` points, partial writes, write credit, blocked flushes,
//! EOF and reset are all explicit; every byte taken / accepted is time-stamped with the (paused)
//! tokio clock. The socket behaves like a real one: it remembers the last waker handed to it with
//! a `Pending`, wakes it on readiness, and never wakes spuriously.

use std::{
    cell::RefCell,
    collections::VecDeque,
    io,
    pin::Pin,
    rc::Rc,
    task::{Context, Poll, Waker},
    time::Duration,
};

use bytes::Bytes;
use tokio::{
    io::{AsyncRead, AsyncWrite, ReadBuf},
    sync::Notify,
    time::Instant,
};

pub struct Hook(pub Box<dyn FnOnce()>);
impl std::fmt::Debug for Hook {
    fn fmt(&self, f: &mut std::fmt::Formatter<'_>) -> std::fmt::Result {
        f.write_str("Hook")
    }
}

#[derive(Debug)]
pub struct Shared {
    /// called once, just before the peer releases the first segment that starts at or after this
    /// input offset (used to fire a signal *before* bytes in the same scheduler turn)
    pub send_hook: Option<(usize, Hook)>,
    /// connection id (for `on_connect_ext` data)
    pub id: u32,
    pub t0: Instant,
    // ---- inbound: peer -> server
    pub rx: VecDeque<Bytes>,
    pub rx_eof: bool,
    pub rx_reset: bool,
    pub read_waker: Option<Waker>,
    /// total bytes handed to the server
    pub taken: usize,
    pub taken_log: Vec<(u64, usize)>,
    pub read_calls: u32,
    pub read_pending: u32,
    /// reads that returned Pending while the script still had data to release later
    pub read_pending_with_more: u32,
    pub script_has_more: bool,
    pub eof_seen_by_server: bool,
    // ---- outbound: server -> peer
    pub out: Vec<u8>,
    /// (virtual ms, cumulative length after the write)
    pub out_log: Vec<(u64, usize)>,
    pub credit: Option<usize>,
    pub max_write: usize,
    pub write_waker: Option<Waker>,
    pub write_calls: u32,
    pub write_pending: u32,
    pub partial_writes: u32,
    pub write_broken: bool,
    pub flush_blocked: bool,
    pub flush_waker: Option<Waker>,
    pub flush_pending: u32,
    pub flush_calls: u32,
    pub shutdown_at: Option<u64>,
    pub shutdown_calls: u32,
    /// `poll_shutdown` never completes (peer does not acknowledge / transport close blocked)
    pub shutdown_blocks: bool,
    pub write_after_shutdown: usize,
    pub dropped_at: Option<u64>,
    pub out_notify: Rc<Notify>,
    pub keep_taken_log: bool,
    /// bytes the application has consumed (request heads of dispatched requests + body bytes
    /// delivered to handlers)
    pub delivered: usize,
    /// max over time of taken - delivered
    pub max_inflight: i64,
    /// value of `max_inflight` each time a handler returned
    pub inflight_marks: Vec<i64>,
    /// wire bytes per delivered body byte (chunked framing overhead), as a ratio num/den
    pub body_scale: (u64, u64),
    pub delivered_body_raw: u64,
    /// (virtual ms, from, to) of every segment the peer released
    pub send_log: Vec<(u64, usize, usize)>,
    // ---- closed-loop adversarial write side (see `WSched`)
    pub need_credit: Rc<Notify>,
    pub need_flush: Rc<Notify>,
    /// per-write-call cap on accepted bytes, cyclic; empty = no cap
    pub max_write_pat: Vec<usize>,
    pub mw_i: usize,
    /// (flush calls let through, then block for ms), cyclic; empty = never block
    pub flush_pat: Vec<(u8, u16)>,
    pub flush_i: usize,
    pub flush_skip_left: u8,
    pub flush_block_ms: u16,
    pub flush_blocks_left: u32,
    /// total virtual ms the socket spent refusing writes / flushes (for timeliness bounds)
    pub blocked_ms_budget: u64,
}

impl Shared {
    pub fn now_ms(&self) -> u64 {
        Instant::now().saturating_duration_since(self.t0).as_millis() as u64
    }
}

#[derive(Debug)]
pub struct SimIo(pub Rc<RefCell<Shared>>);

#[derive(Clone, Debug)]
pub struct Peer(pub Rc<RefCell<Shared>>);

pub fn pair() -> (SimIo, Peer) {
    let sh = Rc::new(RefCell::new(Shared {
        send_hook: None,
        id: 0,
        t0: Instant::now(),
        rx: VecDeque::new(),
        rx_eof: false,
        rx_reset: false,
        read_waker: None,
        taken: 0,
        taken_log: Vec::new(),
        read_calls: 0,
        read_pending: 0,
        read_pending_with_more: 0,
        script_has_more: true,
        eof_seen_by_server: false,
        out: Vec::new(),
        out_log: Vec::new(),
        credit: None,
        max_write: usize::MAX,
        write_waker: None,
        write_calls: 0,
        write_pending: 0,
        partial_writes: 0,
        write_broken: false,
        flush_blocked: false,
        flush_waker: None,
        flush_pending: 0,
        flush_calls: 0,
        shutdown_at: None,
        shutdown_calls: 0,
        shutdown_blocks: false,
        write_after_shutdown: 0,
        dropped_at: None,
        out_notify: Rc::new(Notify::new()),
        keep_taken_log: false,
        delivered: 0,
        max_inflight: 0,
        inflight_marks: Vec::new(),
        body_scale: (1, 1),
        delivered_body_raw: 0,
        send_log: Vec::new(),
        need_credit: Rc::new(Notify::new()),
        need_flush: Rc::new(Notify::new()),
        max_write_pat: Vec::new(),
        mw_i: 0,
        flush_pat: Vec::new(),
        flush_i: 0,
        flush_skip_left: 0,
        flush_block_ms: 0,
        flush_blocks_left: 0,
        blocked_ms_budget: 0,
    }));
    (SimIo(sh.clone()), Peer(sh))
}

impl Drop for SimIo {
    fn drop(&mut self) {
        let mut s = self.0.borrow_mut();
        let now = s.now_ms();
        s.dropped_at = Some(now);
        s.out_notify.notify_waiters();
    }
}

impl AsyncRead for SimIo {
    fn poll_read(
        self: Pin<&mut Self>,
        cx: &mut Context<'_>,
        buf: &mut ReadBuf<'_>,
    ) -> Poll<io::Result<()>> {
        let mut s = self.0.borrow_mut();
        s.read_calls += 1;
        if buf.remaining() == 0 {
            return Poll::Ready(Ok(()));
        }
        if let Some(mut seg) = s.rx.pop_front() {
            let n = seg.len().min(buf.remaining());
            buf.put_slice(&seg[..n]);
            if n < seg.len() {
                let rest = seg.split_off(n);
                s.rx.push_front(rest);
            }
            s.taken += n;
            let inflight = s.taken as i64 - s.delivered as i64;
            if inflight > s.max_inflight {
                s.max_inflight = inflight;
            }
            if s.keep_taken_log {
                let now = s.now_ms();
                let t = s.taken;
                s.taken_log.push((now, t));
            }
            return Poll::Ready(Ok(()));
        }
        if s.rx_reset {
            return Poll::Ready(Err(io::Error::new(
                io::ErrorKind::ConnectionReset,
                "sim: reset by peer",
            )));
        }
        if s.rx_eof {
            s.eof_seen_by_server = true;
            return Poll::Ready(Ok(()));
        }
        s.read_pending += 1;
        if s.script_has_more {
            s.read_pending_with_more += 1;
        }
        s.read_waker = Some(cx.waker().clone());
        Poll::Pending
    }
}

impl AsyncWrite for SimIo {
    fn poll_write(
        self: Pin<&mut Self>,
        cx: &mut Context<'_>,
        data: &[u8],
    ) -> Poll<io::Result<usize>> {
        let mut s = self.0.borrow_mut();
        s.write_calls += 1;
        if s.write_broken {
            return Poll::Ready(Err(io::Error::new(
                io::ErrorKind::BrokenPipe,
                "sim: peer gone",
            )));
        }
        if data.is_empty() {
            return Poll::Ready(Ok(0));
        }
        if s.shutdown_at.is_some() {
            s.write_after_shutdown += data.len();
        }
        let mut n = data.len().min(s.max_write);
        if !s.max_write_pat.is_empty() {
            let i = s.mw_i % s.max_write_pat.len();
            s.mw_i += 1;
            n = n.min(s.max_write_pat[i].max(1));
        }
        if let Some(c) = s.credit {
            if c == 0 {
                s.write_pending += 1;
                s.write_waker = Some(cx.waker().clone());
                s.need_credit.notify_one();
                return Poll::Pending;
            }
            n = n.min(c);
            s.credit = Some(c - n);
        }
        if n < data.len() {
            s.partial_writes += 1;
        }
        s.out.extend_from_slice(&data[..n]);
        let now = s.now_ms();
        let l = s.out.len();
        s.out_log.push((now, l));
        s.out_notify.notify_waiters();
        Poll::Ready(Ok(n))
    }

    fn poll_flush(self: Pin<&mut Self>, cx: &mut Context<'_>) -> Poll<io::Result<()>> {
        let mut s = self.0.borrow_mut();
        s.flush_calls += 1;
        if s.write_broken {
            return Poll::Ready(Err(io::Error::new(
                io::ErrorKind::BrokenPipe,
                "sim: peer gone",
            )));
        }
        if !s.flush_blocked && !s.flush_pat.is_empty() && s.flush_blocks_left > 0 {
            if s.flush_skip_left == 0 {
                let len = s.flush_pat.len();
                let i = s.flush_i % len;
                s.flush_i += 1;
                s.flush_block_ms = s.flush_pat[i].1;
                s.flush_skip_left = s.flush_pat[(i + 1) % len].0;
                s.flush_blocks_left -= 1;
                s.flush_blocked = true;
                s.need_flush.notify_one();
            } else {
                s.flush_skip_left -= 1;
            }
        }
        if s.flush_blocked {
            s.flush_pending += 1;
            s.flush_waker = Some(cx.waker().clone());
            return Poll::Pending;
        }
        Poll::Ready(Ok(()))
    }

    fn poll_shutdown(self: Pin<&mut Self>, cx: &mut Context<'_>) -> Poll<io::Result<()>> {
        let mut s = self.0.borrow_mut();
        s.shutdown_calls += 1;
        if s.shutdown_at.is_none() {
            let now = s.now_ms();
            s.shutdown_at = Some(now);
            s.out_notify.notify_waiters();
        }
        if s.shutdown_blocks {
            // like a real transport: keeps the waker, is simply never ready
            s.flush_waker = Some(cx.waker().clone());
            return Poll::Pending;
        }
        Poll::Ready(Ok(()))
    }
}

impl Peer {
    pub fn now_ms(&self) -> u64 {
        self.0.borrow().now_ms()
    }
    /// Release one segment to the server.
    pub fn send(&self, seg: impl Into<Bytes>) {
        let seg = seg.into();
        if seg.is_empty() {
            return;
        }
        let w = {
            let mut s = self.0.borrow_mut();
            s.rx.push_back(seg);
            s.read_waker.take()
        };
        if let Some(w) = w {
            w.wake();
        }
    }
    pub fn eof(&self) {
        let w = {
            let mut s = self.0.borrow_mut();
            s.rx_eof = true;
            s.script_has_more = false;
            s.read_waker.take()
        };
        if let Some(w) = w {
            w.wake();
        }
    }
    pub fn reset(&self) {
        let w = {
            let mut s = self.0.borrow_mut();
            s.rx_reset = true;
            s.script_has_more = false;
            s.read_waker.take()
        };
        if let Some(w) = w {
            w.wake();
        }
    }
    /// `n` head bytes were consumed by dispatching a request
    pub fn delivered(&self, n: usize) {
        self.0.borrow_mut().delivered += n;
    }
    /// `n` body bytes were handed to a handler (scaled to wire bytes by `body_scale`)
    pub fn delivered_body(&self, n: usize) {
        let mut s = self.0.borrow_mut();
        let before = s.delivered_body_raw * s.body_scale.0 / s.body_scale.1;
        s.delivered_body_raw += n as u64;
        let after = s.delivered_body_raw * s.body_scale.0 / s.body_scale.1;
        s.delivered += (after - before) as usize;
    }
    pub fn mark_inflight(&self) {
        let mut s = self.0.borrow_mut();
        let m = s.max_inflight;
        s.inflight_marks.push(m);
    }
    pub fn script_done(&self) {
        self.0.borrow_mut().script_has_more = false;
    }
    pub fn set_credit(&self, c: Option<usize>) {
        let w = {
            let mut s = self.0.borrow_mut();
            s.credit = c;
            if c != Some(0) {
                s.write_waker.take()
            } else {
                None
            }
        };
        if let Some(w) = w {
            w.wake();
        }
    }
    pub fn add_credit(&self, n: usize) {
        let w = {
            let mut s = self.0.borrow_mut();
            if let Some(c) = s.credit {
                s.credit = Some(c + n);
            }
            if n > 0 {
                s.write_waker.take()
            } else {
                None
            }
        };
        if let Some(w) = w {
            w.wake();
        }
    }
    pub fn set_max_write(&self, n: usize) {
        self.0.borrow_mut().max_write = n.max(1);
    }
    pub fn break_write(&self) {
        let (w, f) = {
            let mut s = self.0.borrow_mut();
            s.write_broken = true;
            (s.write_waker.take(), s.flush_waker.take())
        };
        if let Some(w) = w {
            w.wake();
        }
        if let Some(w) = f {
            w.wake();
        }
    }
    pub fn block_flush(&self, on: bool) {
        let w = {
            let mut s = self.0.borrow_mut();
            s.flush_blocked = on;
            if !on {
                s.flush_waker.take()
            } else {
                None
            }
        };
        if let Some(w) = w {
            w.wake();
        }
    }
    pub fn out_len(&self) -> usize {
        self.0.borrow().out.len()
    }
    pub fn is_closed(&self) -> bool {
        let s = self.0.borrow();
        s.shutdown_at.is_some() || s.dropped_at.is_some()
    }
    /// Wait until the server has written at least `n` bytes in total, or closed, or `max_ms` of
    /// virtual time elapsed.
    pub async fn wait_out(&self, n: usize, max_ms: u64) {
        let notify = self.0.borrow().out_notify.clone();
        let deadline = Instant::now() + Duration::from_millis(max_ms);
        loop {
            if self.out_len() >= n || self.is_closed() {
                return;
            }
            let notified = notify.notified();
            tokio::pin!(notified);
            if tokio::time::timeout_at(deadline, notified).await.is_err() {
                return;
            }
        }
    }
}

/// Inbound (peer → server) script step.
#[derive(Debug, Clone, serde::Serialize, serde::Deserialize, PartialEq, Eq, Hash)]
pub enum PeerOp {
    /// release bytes [from, to) of the rendered input as one segment
    Send(usize, usize),
    Sleep(u32),
    Yield,
    Eof,
    Reset,
    /// wait until >= n output bytes were written (closed-loop), at most max_ms
    WaitOut(usize, u32),
    /// wait until the server closed its side (shutdown or drop), at most max_ms
    WaitClose(u32),
    /// wait until the output parses as >= n complete final responses (closed-loop), at most max_ms
    WaitResps(usize, u32),
}

/// Outbound (server → peer) socket behaviour script step.
#[derive(Debug, Clone, serde::Serialize, serde::Deserialize, PartialEq, Eq, Hash)]
pub enum WOp {
    /// set remaining write credit (bytes the socket will accept before returning Pending)
    Credit(usize),
    AddCredit(usize),
    Unlimited,
    MaxWrite(usize),
    Sleep(u32),
    BlockFlush(u32),
    Break,
}

pub async fn run_peer(peer: Peer, input: Bytes, ops: Vec<PeerOp>, is_head: Vec<bool>) {
    for op in ops {
        match op {
            PeerOp::Send(a, b) => {
                let a = a.min(input.len());
                let b = b.clamp(a, input.len());
                let hook = {
                    let mut s = peer.0.borrow_mut();
                    let now = s.now_ms();
                    s.send_log.push((now, a, b));
                    if s.send_hook.as_ref().is_some_and(|(off, _)| a >= *off) {
                        s.send_hook.take().map(|(_, h)| h.0)
                    } else {
                        None
                    }
                };
                if let Some(h) = hook {
                    h();
                }
                peer.send(input.slice(a..b));
            }
            PeerOp::WaitResps(n, max) => {
                let notify = peer.0.borrow().out_notify.clone();
                let deadline = Instant::now() + Duration::from_millis(max as u64);
                loop {
                    let done = {
                        let s = peer.0.borrow();
                        let mut ih = is_head.clone();
                        while ih.len() < n + 4 {
                            ih.push(false);
                        }
                        let p = crate::httpwire::parse_responses(&s.out, &ih, false);
                        p.responses.iter().filter(|r| r.complete).count() >= n
                            || p.error.is_some()
                    };
                    if done || peer.is_closed() {
                        break;
                    }
                    let notified = notify.notified();
                    tokio::pin!(notified);
                    if tokio::time::timeout_at(deadline, notified).await.is_err() {
                        break;
                    }
                }
            }
            PeerOp::Sleep(ms) => tokio::time::sleep(Duration::from_millis(ms as u64)).await,
            PeerOp::Yield => tokio::task::yield_now().await,
            PeerOp::Eof => peer.eof(),
            PeerOp::Reset => peer.reset(),
            PeerOp::WaitOut(n, max) => peer.wait_out(n, max as u64).await,
            PeerOp::WaitClose(max) => {
                peer.wait_out(usize::MAX, max as u64).await;
            }
        }
    }
    peer.script_done();
}

pub async fn run_wscript(peer: Peer, ops: Vec<WOp>) {
    for op in ops {
        match op {
            WOp::Credit(n) => peer.set_credit(Some(n)),
            WOp::AddCredit(n) => peer.add_credit(n),
            WOp::Unlimited => peer.set_credit(None),
            WOp::MaxWrite(n) => peer.set_max_write(n),
            WOp::Sleep(ms) => tokio::time::sleep(Duration::from_millis(ms as u64)).await,
            WOp::BlockFlush(ms) => {
                peer.block_flush(true);
                tokio::time::sleep(Duration::from_millis(ms as u64)).await;
                peer.block_flush(false);
            }
            WOp::Break => peer.break_write(),
        }
    }
}

/// Closed-loop adversarial write side: the socket starts with `init_credit` bytes of credit; each
/// time a write finds the credit exhausted the next `(delay_ms, credit)` of the cyclic `drip`
/// pattern is applied (delay 0 = one scheduler yield). `max_write` caps single writes cyclically,
/// `flush` blocks `poll_flush` cyclically (let `skip` calls through, then block for `ms`).
/// After `budget` refills / flush blocks the socket becomes benign, so work is always possible
/// eventually.
#[derive(Debug, Clone, serde::Serialize, serde::Deserialize, PartialEq, Eq, Hash, Default)]
pub struct WSched {
    pub init_credit: u32,
    pub drip: Vec<(u16, u32)>,
    pub max_write: Vec<u32>,
    pub flush: Vec<(u8, u16)>,
    pub budget: u32,
}

impl WSched {
    pub fn is_benign(&self) -> bool {
        self.drip.is_empty() && self.max_write.is_empty() && self.flush.is_empty()
    }
}

pub fn apply_wsched(peer: &Peer, w: &WSched) {
    let mut s = peer.0.borrow_mut();
    if !w.drip.is_empty() {
        s.credit = Some(w.init_credit as usize);
    }
    s.max_write_pat = w.max_write.iter().map(|m| *m as usize).collect();
    s.flush_pat = w.flush.clone();
    s.flush_skip_left = w.flush.first().map(|f| f.0).unwrap_or(0);
    s.flush_blocks_left = if w.flush.is_empty() { 0 } else { w.budget.max(1) };
}

pub async fn run_drip(peer: Peer, w: WSched) {
    if w.drip.is_empty() {
        return;
    }
    let notify = peer.0.borrow().need_credit.clone();
    let mut i = 0usize;
    let mut left = w.budget.max(1);
    loop {
        notify.notified().await;
        if peer.0.borrow().credit.map_or(true, |c| c > 0) {
            continue;
        }
        let (d, c) = w.drip[i % w.drip.len()];
        i += 1;
        if d == 0 {
            tokio::task::yield_now().await;
        } else {
            peer.0.borrow_mut().blocked_ms_budget += d as u64;
            tokio::time::sleep(Duration::from_millis(d as u64)).await;
        }
        left -= 1;
        if left == 0 {
            peer.set_credit(None);
            return;
        }
        peer.add_credit(c.max(1) as usize);
    }
}

pub async fn run_flush_unblocker(peer: Peer) {
    let notify = peer.0.borrow().need_flush.clone();
    loop {
        notify.notified().await;
        let ms = peer.0.borrow().flush_block_ms;
        if ms == 0 {
            tokio::task::yield_now().await;
        } else {
            peer.0.borrow_mut().blocked_ms_budget += ms as u64;
            tokio::time::sleep(Duration::from_millis(ms as u64)).await;
        }
        peer.block_flush(false);
    }
}

impl actix_rt::net::ActixStream for SimIo {
    fn poll_read_ready(&self, cx: &mut Context<'_>) -> Poll<io::Result<actix_rt::net::Ready>> {
        let mut s = self.0.borrow_mut();
        if !s.rx.is_empty() || s.rx_eof || s.rx_reset {
            Poll::Ready(Ok(actix_rt::net::Ready::READABLE))
        } else {
            s.read_waker = Some(cx.waker().clone());
            Poll::Pending
        }
    }
    fn poll_write_ready(&self, _cx: &mut Context<'_>) -> Poll<io::Result<actix_rt::net::Ready>> {
        Poll::Ready(Ok(actix_rt::net::Ready::WRITABLE))
    }
}
