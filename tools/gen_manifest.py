#!/usr/bin/env python3
"""Regenerates /verif/MANIFEST.json from the table below (one entry per implemented check)."""
import json, os, sys
ROOT = os.path.dirname(os.path.dirname(os.path.abspath(__file__)))

CHECKS = {
 "C02": dict(
   engine="simnet",
   category="exploration",
   text="Generated pipelines x interpreted handler/body programs (status incl. 204/304, Bytes / SizedStream exact-short-long / BodyStream / custom MessageBody with size hints, empty chunks, Pending patterns, failure at end, echo of the request body, user-set framing headers, no_chunking, force_close) x arrival timings x write-buffer sizes run on the real dispatcher; the written bytes are decoded by an independent strict client-side parser that is told the request methods, and each response is compared with what its own (request, program) pair determines (status, version, 100-continue count, exact body, Connection header, termination on failing/short bodies). One request per case is re-run alone on a fresh connection and must yield the same status line, framing headers and body (independence). ~5*10^4 (quick) to 1.5*10^6 (thorough) cases; the overlap window (next request dispatched before the previous response is written) is measured and required for non-triviality.",
   note="Trusts the independent response parser and the body-program model in harness/src/{httpwire,h1engine}.rs. Only the last request of a pipeline may close, leave its body unread or fail its body (C03 owns close discipline). Handler misuse outside documented contracts (both framing headers set by hand, BodySize::None with a body status) is outside the domain. Listed findings exclude their class by construction (counted).",
   technique="property-based testing against an independent reference parser + per-request metamorphic (solo vs pipelined) relation",
   design_ref="DESIGN.md §5 C02"),
 "C03": dict(
   engine="simnet",
   category="exploration",
   text="Generated pipelines (1-5 requests whose bodies look like requests) x handler programs that read none/part/all of the body, hold it, drop it, echo it, fail, respond early or late x keep-alive off/OS/timeout x half-close allowed or not x disconnect timeout 0/200/1000 ms x arrival class of every following request and of every remaining body part (already pipelined / after a delay / only after the previous response is completely on the wire) x optional malformed tail with an attack suffix, run on the real dispatcher over the scripted socket. The wire is decoded by the independent response parser; the first response that ends the connection (Connection: close, HTTP/1.0 without keep-alive, close-delimited, server-made 4xx/500, or written while the request body was unread and undrainable) must be the last thing written and its request the last one dispatched, the socket must be shut down within the disconnect timeout, and every dispatched request must be the stream's own next request with its exact body (no body byte is ever parsed as a request). ~4*10^5 (quick) to 6*10^6 (thorough) cases.",
   note="Trusts the response parser and the drainability model (a chunked body whose payload object was dropped may be drained to its end); two listed findings (requests already sent when the closing response completed are still served; close + dropped chunked body is drained and later requests served) skip exactly that sub-check for exactly that input class, counted in evidence.",
   technique="property-based testing with ground-truth request lists + invariant over the wire history (nothing written/dispatched after the closing response), proptest over scripted schedules",
   design_ref="DESIGN.md §5 C03"),
 "C04": dict(
   engine="simnet",
   category="fault_enumeration",
   text="The C02 pipelines and handler/body programs (bodies up to 200 KB, slow / partial / dropping request-body consumers, self-waking Pending patterns, echo) run against an adversarial closed-loop socket: initial write credit 0..5000, credit refilled only after a refused write (delay 0..50 ms, 1..40000 bytes), per-call write caps 1..100000 bytes, poll_flush blocked for 0..20 ms every 1-3 calls, read segmentation with Pending between segments, and a fault dimension (prefix of the stream then half-close, prefix then reset, reset after all input). The executor polls a task only when it was woken (tokio current-thread, paused clock), so a lost wake-up is a deterministic virtual-time deadline miss. Oracles: the connection future completes; the last response byte is written by (last input arrival + the case's own handler/body delays + time the socket refused writes + 150 ms), so a wake-up rescued by an unrelated later event still fails; the accepted bytes decode (independent parser) to exactly the programs' responses, once and in order (C02 oracle); nothing is written after poll_shutdown; a half-close does not drop responses to completely received requests. ~2.5*10^5 (quick) to 5*10^6 (thorough) schedules.",
   note="Fault enumeration over generated (not exhaustive) schedules; real kernel sockets/TLS/multi-thread scheduling are not explored. Trusts the scripted socket to wake exactly the last waker it was given and never spuriously. Fault cases use a reduced oracle. Listed C01/C02 findings exclude their classes (counted).",
   technique="property-based testing over generated socket-readiness schedules and injected faults on a wake-driven executor with virtual time; differential against the handler-program model",
   design_ref="DESIGN.md §5 C04"),
 "C05": dict(
   engine="simnet",
   category="exploration",
   text="Streams built to grow, sent by a peer with unlimited send rate: request heads of 1 B..600 KiB (one huge header / up to 20 000 small headers / endless line / never terminated); bodies of 0.2..12 MB (Content-Length and chunked, chunk sizes 1 B..1 MB) against consumers that never read, read slowly, stop after n bytes or drop the payload; 20..60 000 pipelined minimal requests behind slow handlers and a blocked socket; streaming responses of up to 6 MB in chunks of 1 B..64 KiB with h1_write_buffer_size 1 B..1 MiB against a socket that accepts 1..20 000 bytes per refusal. Deciding oracle = byte accounting at the scripted socket and the recording handlers: bytes taken minus bytes handed to the application <= 622 592 (two read buffers at full 256 KiB capacity + 32 KiB payload mark + head-room) while the payload is alive; complete requests taken ahead of dispatch <= 16 + 2*(256 KiB/request size)+2; body bytes pulled ahead of the socket <= write buffer + one chunk + 1 KiB; an oversized head is refused with 431 after at most 256 KiB + 8 KiB were taken and nothing after it is served; everything fitting is served completely. The per-case allocator high-water mark is recorded (coarse bound in the body phase).",
   note="Bounds are constants derived from the code (MAX_BUFFER_SIZE, BytesMut capacity doubling, payload mark, MAX_PIPELINED_MESSAGES) with head-room: a regression that loosens a bound by less than the head-room is not detected. The queue bound is what the code implements (one decode pass queues a whole read buffer), i.e. thousands of tiny requests, not 16. Per-object overhead and allocator fragmentation are not bounded.",
   technique="property-based testing with generated volume/slow-consumer scenarios and black-box byte-accounting invariants (maxima over the execution) under virtual time",
   design_ref="DESIGN.md §5 C05"),
 "C06": dict(
   engine="simnet",
   category="exploration",
   text="Virtual-time exploration of timer orderings at 1 ms resolution. Because the harness controls when the service is created relative to the accept, the staleness of actix's 500 ms cached clock and hence the exact deadline of every timer is known (deadline = t - ((accept_delay + t) mod 500) + timeout); events are generated at the exact deadline -3000..+1500 ms, densely at +-3 ms, and never. (head) first head in 1-4 pieces vs client_request_timeout 0/300/3000/1..2000: 408 exactly at the deadline (and inside [timeout-500, timeout]) iff the head is incomplete then, never otherwise, nothing else written, request not dispatched, connection gone. (keep-alive) Disabled/Os/Timeout x second and third request racing the idle deadline: a request before the deadline is served, the idle connection is closed at the deadline, not before. (shutdown) decision by keep-alive expiry / 408 / closing response / unread-body linger x client_disconnect_timeout x silent or late-closing peer x peer that never reads x transport whose shutdown never completes: the task completes by decision + timeout (+ timeout for the linger phase). (drain) graceful-shutdown signal vs 1-4 requests with handler delays, streaming bodies, arrival gaps: nothing dispatched after the signal, every dispatched request answered completely, a response written after the signal says close and is the last, the connection completes when the in-flight work is done. 10^6 (quick) to 2*10^7 (thorough) cases.",
   note="Timers armed in the very millisecond of a clock refresh are not judged (either value is legitimate). Only the first request head is governed by the request timeout. No write timeout is claimed: a peer that stops reading before a response is flushed keeps the server writing.",
   technique="property-based testing over generated event times around exact timer deadlines under a paused (virtual) clock; invariants over time-stamped wire history",
   design_ref="DESIGN.md §5 C06"),
 "C07": dict(
   engine="pbt",
   category="exploration",
   text="Model-based: operation sequences over the public pair from h1::Payload::create(false) (feed_data of sizes 0/1/100/32767/32768/40000/random, feed_eof, set_error, sender drop, need_read with a counting I/O waker, reader poll with the same or a fresh counting waker, unread_data, reader drop) are executed against the real channel and a reference model (byte queue, eof, pending error, need_read flag) that is compared after every step: reader output (exact chunk bytes / Pending / error kind / clean end only after feed_eof), need_read's answer, and required wake-ups (reader woken by the next feed/eof/error/sender drop after a Pending poll; paused feeder woken once the reader drains below 32 KiB). Small-scope exhaustive phase: ALL 10^6 (quick, depth 6) / 10^8 (thorough, depth 8) sequences over a 10-letter alphabet, every prefix checked; random phase: 3*10^5..6*10^6 sequences of up to 60 ops with the full size menu.",
   note="exhaustive: true is claimed only for the enumerated phase (fixed alphabet, fixed depth), recorded per phase in the evidence; the run as a whole is exploration. Spurious wake-ups are allowed. Sender operations after the body was closed only have to be safe. Trusts the 60-line reference model in harness/src/props/c07.rs.",
   technique="stateful model-based property testing: small-scope exhaustive enumeration of operation sequences + proptest random sequences against a reference model",
   design_ref="DESIGN.md §5 C07"),
 "C10": dict(
   engine="pbt",
   category="exploration",
   text="Patterns generated from a grammar (static text, {name}, {name:regex} with regexes \\d+ [ab]+ [^/]* a|bb .+ (a|b)+ v(\\d)? — the last two with their own capture groups —, optional {tail}*, single or list of 2-3, new or prefix) come with a reference AST; a small backtracking matcher written in the harness (leftmost, greedy, ordered alternation, anchored, ending $ / (/|$) / none for tails) gives the expected matched length and capture spans. For every (definition, path): is_match == find_match.is_some() == capture_match_info; matched length and Path::unprocessed() equal the model's; prefix matches end at a segment boundary; every captured value is exactly the substring that matched (by name and by iteration); the path rebuilt with resource_path_from_iter from the captured values equals the matched part, matches again and yields the values back. Paths: ALL strings over /ab1-v. up to length 6 (quick; 7 thorough) for 160-400 definitions (exhaustive per definition), paths derived from the pattern's own language with 9 perturbations, and paths up to the 65 534-byte URL limit with captures beyond offset 65 000. Quoter: ALL strings over %2Ff541G/ up to length 7 for three protected sets (exhaustive) plus random bytes, against a reference partial decoder.",
   note="exhaustive: true is per phase (fixed alphabet and length, per sampled definition), recorded in the evidence phases; the definitions themselves are sampled. Only menu regexes are used so the reference matcher is exact; documented-meaningless patterns are not generated. Trusts the ~80-line reference matcher and reference decoder in harness/src/props/c10.rs.",
   technique="differential property testing against a reference matcher/decoder: small-alphabet exhaustive enumeration of paths and escape strings + proptest-generated patterns and long paths; round-trip (build then match)",
   design_ref="DESIGN.md §5 C10"),
 "C14": dict(
   engine="pbt",
   category="exploration",
   text="A reference RFC 6455 frame encoder/decoder, SHA-1 and base64 written in the harness. (roundtrip) sequences of 1-8 messages of every kind (payload lengths 0/1/125/126/127/65535/65536/70000/random, fragmented messages) are encoded by the client or server Codec; the byte layout is checked by the reference decoder (mask bit per role, minimal length form, payload); the other role's Codec decodes them under random cuts to the same messages; messages over the receiver's max_size must be refused. (cuts-exhaustive / stream) raw frame sequences - all opcodes incl. reserved, right and wrong masking, masks 0/ff/1234/random, FIN combinations - are decoded whole and with EVERY single cut position (streams <= 400 bytes) or random multi-cuts at buffer alignments 0-3: same frames, same error at the same frame; a reference state machine names the first illegal frame (wrong masking, reserved opcode, fragmented or over-long control frame, continuation without start, fragmented or unfragmented data frame inside a fragmented message, payload over max_size) and the decoder must fail exactly there. (oversize) a header announcing max_size+1 .. 2^63 bytes with 0-300 payload bytes supplied must be refused at once and must not grow the decode buffer. (handshake) request heads from a grammar over method / Upgrade / Connection / Sec-WebSocket-Version / key bytes, parsed by the real h1 decoder: accepted iff the reference predicate holds (the 6912-point menu space is enumerated completely), Sec-WebSocket-Accept = base64(SHA-1(key+GUID)) by the harness's own SHA-1.",
   note="RSV bits and UTF-8 validity are not claimed and not checked. An over-long Close turned into Close(None) counts as refusal. Token-substring laxness of the handshake (contains(\"websocket\")) is not probed beyond the menu. Trusts the reference codec/SHA-1/base64 in harness/src/props/c14.rs (SHA-1 is cross-checked against hash_key on every accepted handshake).",
   technique="differential/round-trip property testing against reference implementations; metamorphic segmentation relation with exhaustive single cuts; reference protocol state machine as oracle",
   design_ref="DESIGN.md §5 C14"),
 "C15": dict(
   engine="streams",
   category="exploration",
   text="Multipart bodies are rendered from an abstract field list (ground truth by construction): boundaries of 1-70 bchars (quoted or not, incl. '-' and '--'), 0-5 fields with name / filename / content type / extra header / exact per-field Content-Length, contents that are empty, binary, rich in CR LF '-', ending in CR / CRLF / '--', containing CRLF-- + other text, CRLF-- + a strict boundary prefix, the boundary in mid-line, one long line up to 200 KB; optional preamble/epilogue; form-data or mixed. They are delivered through a scripted chunk stream to the public Multipart stream (Multipart::new, or the extractor with MultipartConfig::buffer_limit 256/4096/70000) on a wake-driven executor under a virtual deadline. Phase cuts: short bodies whole and with EVERY single cut position; phase truncation: short bodies truncated at EVERY offset; phase general: whole / 1-byte / random multi-cuts with Pending patterns and the malformed classes (garbage after an inner boundary, unterminated header block, nested multipart, non-numeric field length, transport error). Oracle: valid bodies yield exactly the generator's fields (name, filename, content type, headers, exact content bytes) and end Ok for every chunking; truncated/malformed bodies end in an error, never Ok, never a hang, and every field delivered as complete is a true field; the Ok/error outcome and the cleanly delivered fields are the same for every chunking; the chunk stream is never pulled more than buffer limit + one chunk + 1 KiB ahead of the consumed offset. ~10^6 (quick) to 2*10^7 (thorough) (body, chunking) runs.",
   note="Valid bodies never contain CRLF--boundary in content (RFC 2046); lying per-field Content-Length is outside the domain. One listed finding (bare CR + --boundary inside content ends the field) excludes exactly the contents that contain that byte string (counted). Trusts the renderer in harness/src/props/c15.rs.",
   technique="property-based testing with ground truth by construction + chunking metamorphic relation + exhaustive single cuts / truncation offsets for short bodies, on a wake-driven executor with a virtual deadline",
   design_ref="DESIGN.md §5 C15"),
 "C12": dict(
   engine="streams",
   category="exploration",
   text="The buffering extractors are called through their public FromRequest entry points (web::Bytes and String with PayloadConfig, Json<String> with JsonConfig, Form<T> with FormConfig, web::Payload::to_bytes_limited, body::to_bytes_limited over a BodyStream, MultipartForm<{a: Bytes with a 4 KiB field limit, b: Text}> with MultipartFormConfig::memory_limit) with a scripted streaming dev::Payload that counts how far it was pulled, on a wake-driven executor with a virtual deadline. Cases: limit 0/1/7/1024/262144/random x decoded length limit-1/limit/limit+1/+-20/2x/64x x valid or invalid content x compressible or not x coding identity/gzip/deflate/br/zstd (bodies encoded with flate2/brotli/zstd directly) x Content-Length absent/true/lying low/lying high x chunking one/1-byte/fixed/boundary exactly at the limit/random cuts with Pending patterns. Oracle: Ok implies decoded length <= limit and the value equals the original; decoded length over the limit implies the extractor's overflow error (never Ok, never another error); within the limit only invalid content or a lying length may fail; the same outcome for the generated chunking and for a single chunk; the payload is not pulled more than 2 chunks beyond the one in which the cumulative decoded length (streaming decode with the codec library) first exceeds the limit. 3*10^4 (quick) to 6*10^5 (thorough) cases, each run twice.",
   note="Overflow kind is recognised by error text (Overflow / BodyLimitExceeded) or status 413. A declared Content-Length above the limit may fail early. TempFile multipart fields and custom FieldReader implementations are not covered.",
   technique="property-based testing with boundary-value generators around the limit, chunking metamorphic relation, pull-count invariant on a scripted payload stream; reference codecs for content codings",
   design_ref="DESIGN.md §5 C12"),
 "C13": dict(
   engine="simnet",
   category="exploration",
   text="(response) an actix-web App wrapped in Compress is served by the real HttpService/h1 dispatcher over the scripted socket (the composition HttpServer uses); handlers produce bodies of 0-8 chunks with sizes at 1/1023/1024/1025/2048/2049 and up to 100 KB, compressible or not, as Bytes / stream / stream with declared Content-Length / SizedStream, with status 200/204/206/304/404, optionally already encoded and labelled by the handler, with text / json / image / svg / video content types; requests carry an Accept-Encoding generated from a grammar (gzip deflate br zstd identity * compress x-foo, q in 0/0.0/0.001/0.5/1/1.0/0.999, OWS, absent, empty). The wire is parsed by the independent HTTP/1 response parser (so a stale Content-Length breaks framing visibly) and the body is decoded with flate2/brotli/zstd directly according to the response's Content-Encoding: it must equal the handler's bytes; the chosen coding (identity included) must be acceptable by the RFC 7231 5.3.4 predicate; pass-through classes (handler-set Content-Encoding, 204, 304, 206, empty body of known size) must arrive byte-for-byte with the handler's headers; the connection must not stall. (request) bodies of 0-200 KB encoded with the codec libraries are sent with Content-Encoding gzip/deflate/br/zstd in Content-Length or chunked framing under random segmentation to an echo handler: the handler must see exactly the original bytes. 1.8*10^4 (quick) to 3.6*10^5 (thorough) cases.",
   note="A 406 is accepted whenever the server declines (the property constrains the coding that is chosen). image/* (except svg) and video/* are sent unencoded by design and exempt from the identity check. Headers with two members for the same coding are not generated. Compressed request streams cut short by the client are observed (flate2 accepts them at finish) but not judged: the property speaks of complete bodies. spawn_blocking threads used by the codecs are real; only their results are observed.",
   technique="differential property testing: responses decoded by reference codec libraries through an independent HTTP parser; negotiation checked against an RFC predicate; generated Accept-Encoding grammar",
   design_ref="DESIGN.md §5 C13"),
 "C11": dict(
   engine="simnet",
   category="exploration",
   text="One service instance (one HttpRequestPool) - the real HttpService + h1 dispatcher over scripted connections with on_connect_ext connection data, running an App with nested dynamic scopes, named and multi-pattern resources, tail segments, a default service, Marker app_data at app / scope / nested-scope / resource level and a wrap_fn middleware - serves a generated history of 1-300 requests over 1-3 connections. Each request picks one of 14 paths (static, dynamic, percent-encoded incl. %2F, tail, multi-pattern, nested scope, unmatched, with query), a method and headers (Cookie, Host, ...), and behaviours: insert marker types into extensions, read cookies() / connection_info() (cached in extensions), clone the HttpRequest into a stash (keeps it out of the pool), release 1-200 stashed clones at once (beyond the pool capacity of 128). Handler and middleware serialise everything reachable from the request (method, URI, version, header multimap, match_info pairs, match_pattern, match_name, unprocessed path, extension markers at entry, conn_data, innermost app_data, peer address, cookie and connection-info results, the middleware's pre-routing view). Oracle: the dump of one request of the history equals the dump of the same request sent alone to a freshly built service with the same connection id. 8*10^3 (quick) to 1.6*10^5 (thorough) histories.",
   note="Differential against the implementation itself on a fresh instance: a defect that shows identically on a fresh service is out of scope here (C09 owns routing correctness). One probe per history.",
   technique="property-based testing over request histories (stateful generation) with a metamorphic oracle: history-run vs fresh-service run of the same request",
   design_ref="DESIGN.md §5 C11"),
 "C09": dict(
   engine="pbt",
   category="exploration",
   text="A route table is generated as an AST (up to 3 levels: scopes with static / dynamic / regex prefixes incl. empty and trailing-slash forms, resources with one pattern or a list of two incl. tails, 0-2 routes each with optional method and guards, resource/scope guards from Header, Host, Method, Not, Any, optional resource / scope / App default services, Marker app_data at app / scope / resource level) and built twice: into a real actix-web App (actix_web::test::init_service) and into a reference router written in the harness - committed descent in registration order using C10's reference pattern matcher on the partially percent-decoded path (C10's reference decoder, %2F %25 %2B kept), guards evaluated by a reference interpreter. 8 requests per table: paths derived from the table's own pattern chains (values from each segment's language) with 12 perturbations (trailing slash, extra segment, dropped char, empty segment, %61 %62 %2F escapes), methods GET/POST/PUT, x-g and Host headers. Oracle: the handler identity reported by the app (every handler and default service returns its node id), its match_info pairs and the innermost Marker equal the model's; 404 / 405 exactly where the model says. 6.4*10^4 (quick) to 1.3*10^6 (thorough) requests.",
   note="A scope without its own default service falls back to the App's default service, as documented on Scope::default_service (intermediate scopes' defaults are not inherited); the model follows the documentation. match_pattern/match_name are not compared here. Middleware-level rewriting (NormalizePath) and external resources / url_for are not covered.",
   technique="model-based differential property testing: generated route-table ASTs built into the real App and into a reference router; requests derived from the table's own grammar",
   design_ref="DESIGN.md §5 C09"),
 "C08": dict(
   engine="h2sim",
   category="exploration",
   text="The real HttpService is driven with Protocol::Http2 over an in-memory duplex pipe by an h2 client whose flow control is scripted: initial stream window 1/100/16384/65535/1 MiB/random, connection window 1-4 MiB, received capacity released eagerly / in steps of 1..20000 bytes with 0-20 ms virtual delays / never (starved stream) / stream reset by the client after k bytes; 1-4 concurrent streams (GET/HEAD/POST). Handlers are interpreted programs: status 200/204/206/304/404, body Empty / Bytes / BodyStream / SizedStream / custom MessageBody with chunks of 0..120000 bytes (empty chunks, chunks larger than the window) and self-waking Pending patterns, hop-by-hop headers set by the user, handler delays. Oracle per stream: DATA bytes equal the body program's bytes in order; content-length, when sent, equals that length (the would-be length for HEAD); no DATA for HEAD / 204 / 304 / empty bodies; none of connection, keep-alive, transfer-encoding, upgrade, proxy-connection is sent; END_STREAM arrives within a virtual minute unless the client itself starves the stream; bytes received before a client reset are a prefix of the body; each response carries its own stream's marker; a starved or reset stream never prevents another stream from completing. 6*10^3 (quick) to 1.2*10^5 (thorough) connections.",
   note="h2 (the crate) is on both sides: frame-level behaviour of the client half is trusted. Request bodies over HTTP/2 (h2::Payload release_capacity) and h2 keep-alive pings are not explored. The connection window is kept large so that starvation of one stream is never a legitimate reason for another to wait.",
   technique="property-based testing over generated flow-control schedules against interpreted handler programs (ground truth by construction), virtual-time deadline as hang detector",
   design_ref="DESIGN.md §5 C08"),
 "C16": dict(
   engine="pbt",
   category="exploration",
   text="A temp tree (under /verif/target/tmp, one per worker thread, removed afterwards) holds a served root with files of length 0/1/10/25/33/40/70000 whose contents encode their own relative path, hidden files, index files, and - next to the root - a canary file, a canary directory and a look-alike sibling directory. Files::new(\"/static\", root) with show_files_listing / index_file / use_hidden_files / redirect_to_slash_directory toggled is served through actix_web::test. Phase paths: tails built from 0-5 tokens (real names, '.', '..', %2e, %2E%2E, ..%2f, %2f, %5c, %00, %25, %252e%252e, UTF-8 escapes, names that exist only outside the root) joined by '/', '//' or nothing. Phase files: plain paths to existing files with a Range header from a grammar (first-last, from, suffix, multiple, offsets relative to the file end, 2^62 / 2^63 / 2^64-1 / 2^64, inverted, spaces, garbage) and If-Match / If-None-Match (own etag, other, *, garbage) / If-Modified-Since / If-Unmodified-Since (mtime +-0/1/100 s, garbage) built from the validators the server advertised in a prior plain GET. Oracle: no response contains canary bytes; every 200/206 body is (a slice of) a file under the root; listings link only to entries under the root; plain paths to existing files are served completely; a 206 has a well-formed possible Content-Range that is one of the satisfiable requested ranges (reference RFC 7233 evaluator), exact body and Content-Length; 416 only if nothing is satisfiable or the header is invalid, with bytes */len; a single satisfiable range is honoured; 412 only if If-Match or If-Unmodified-Since fails and always when If-Match fails; 304 only if If-None-Match matches or (absent it) If-Modified-Since >= mtime; 304/412/416 have empty bodies; never a panic (overflow checks on) or a 5xx. 2.4*10^4 (quick) to 4.8*10^5 (thorough) requests.",
   note="Real file system under /verif/target/tmp (no symlinks, no concurrent modification). If-Range, HEAD and pre-compressed variants (try_compressed) are not generated. NamedFile opened directly by handlers is not covered, only Files.",
   technique="property-based testing with self-describing file contents (containment oracle), reference range/conditional evaluators, grammar-generated paths and headers",
   design_ref="DESIGN.md §5 C16"),
 "C01": dict(
   engine="simnet",
   category="exploration",
   text="Generated request pipelines (ground truth known by construction) with 27 malformed-framing classes and an attack suffix are rendered to bytes and delivered to the real HttpService/h1 dispatcher over a scripted in-memory socket under generated segmentations (cuts inside heads, CRLF pairs, chunk-size lines, bodies, at message boundaries, 1-byte reads, pauses) and handler timings. The recording service's view must equal the ground truth, malformed messages must end in 4xx + close, body errors must never look like clean ends and nothing after the rejection point may be dispatched. Exploration over ~2*10^5 (quick) to 4*10^6 (thorough) cases per run; no exhaustiveness claimed.",
   note="Trusts the renderer/ground-truth model in harness/src/httpwire.rs and the scripted socket; Upgrade/CONNECT requests are outside the domain; heads above 128 KiB are a lenient class (exact parse or 4xx) because acceptance depends on read sizes; listed findings exclude their input class by construction (counted in evidence).",
   technique="property-based testing with ground truth by construction + segmentation metamorphic relation (proptest, scripted socket, paused clock)",
   design_ref="DESIGN.md §5 C01"),
 "C18": dict(
   engine="pbt",
   category="exploration",
   text="Model-based property testing: generated HeaderMap operation sequences are executed against the real map and a reference Vec-based multimap; full contents, lengths, every iterator and its size_hint at every depth, Removed/Drain results and http::HeaderMap conversions are compared after every step. Exploration (no exhaustiveness claim) is the right level: the API is pure and cheap, so 10^5-10^6 sequences per run cover the small name/value menu densely.",
   note="Trusts the reference multimap in harness/src/props/c18.rs and proptest's generators; inter-name iteration order is unspecified and not compared.",
   technique="stateful model-based property testing (proptest op sequences vs reference multimap)",
   design_ref="DESIGN.md §5 C18"),
}

PENDING_REASON = "check not yet built in this round (planned: see DESIGN.md §5/§8); not claimed until its machinery exists"
NOT_APPLICABLE = {}

def main():
    props = [json.loads(l)["id"] for l in open(os.path.join(ROOT, "properties.jsonl")) if l.strip()]
    checks = []
    for pid in props:
        if pid not in CHECKS: continue
        c = CHECKS[pid]
        checks.append({
            "property_id": pid,
            "quick_cmd": f"./check {pid} --tier quick",
            "thorough_cmd": f"./check {pid} --tier thorough",
            "evidence_file": f"evidence/{pid}.json",
            "replay_cmd_template": "./check replay {path}",
            "engine": c["engine"],
            "level_claimed": {"category": c["category"], "text": c["text"], "design_ref": c["design_ref"]},
            "level_note": c["note"],
            "technique": c["technique"],
        })
    na = []
    for pid in props:
        if pid in CHECKS: continue
        na.append({"property_id": pid, "reason": NOT_APPLICABLE.get(pid, PENDING_REASON)})
    hooks_file = os.path.join(ROOT, "hooks.json")
    hooks = json.load(open(hooks_file)) if os.path.exists(hooks_file) else {"source_commits": []}
    m = {
        "version": 1,
        "setup_cmd": "./check build",
        "hooks": {
            "guard": "actix_actix_web_verif",
            "enable": "none needed so far: every observation is made at public APIs or at the scripted socket; the cfg name `--cfg actix_actix_web_verif` is reserved for additive hooks (RUSTFLAGS in ./check would enable it)",
            "baseline_off_cmd": "cd /repo && cargo test --workspace --no-fail-fast --offline",
            "source_commits": hooks.get("source_commits", []),
            "add_only": True,
        },
        "engines": [
            {"name": "pbt", "path": "harness/src/runner.rs", "serves_properties": ["C07","C09","C10","C14","C16","C18"], "kind_free_text": "parallel seeded proptest runner with shrinking, replay files, class histograms, known-findings exclusion; also enumerators for small finite spaces"},
            {"name": "h2sim", "path": "harness/src/props/c08.rs", "serves_properties": ["C08"], "kind_free_text": "h2 client with scripted windows / capacity release / resets over tokio::io::duplex against HttpService with Protocol::Http2, paused clock"},
            {"name": "streams", "path": "harness/src/streams.rs", "serves_properties": ["C12","C13","C15"], "kind_free_text": "scripted chunk streams (generated cuts, self-waking Pending patterns, EOF or transport error, pull accounting) consumed on a paused current-thread tokio runtime under a virtual deadline (hang detector)"},
            {"name": "simnet", "path": "harness/src/simnet.rs", "serves_properties": ["C01","C02","C03","C04","C05","C06","C11","C13","C19"], "kind_free_text": "scripted in-memory socket + paused tokio clock + interpreted handler programs driving the real HttpService/h1 dispatcher"},
        ],
        "checks": checks,
        "not_applicable": na,
        "notes": "All checks: ./check <ID> --tier quick|thorough; exit 0 = held (KNOWN-FINDING lines allowed), 1 = VIOLATION line printed, 2 = infrastructure problem. VERIF_SEED selects the PRNG stream. Known findings: known_findings.json.",
    }
    json.dump(m, open(os.path.join(ROOT, "MANIFEST.json"), "w"), indent=1)
    print("MANIFEST.json:", len(checks), "checks,", len(na), "not claimed")

main()
