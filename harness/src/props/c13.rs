//! C13 — content coding is lossless, labelled and negotiated.
//!
//! An actix-web `App` wrapped in `Compress` is served by the real `HttpService` over the scripted
//! socket (the composition `HttpServer` uses); the bytes on the wire are parsed by the independent
//! HTTP/1 response parser and the body is decoded with flate2 / brotli / zstd *directly* according
//! to the response's `Content-Encoding`. Request side: bodies encoded with the libraries are sent
//! with a `Content-Encoding` and must reach the handler decoded.

use std::io::{Read as _, Write as _};

use actix_web::{dev::AppConfig, http::StatusCode, middleware::Compress, web, App, HttpResponse};
use bytes::Bytes;
use proptest::prelude::*;
use serde::{Deserialize, Serialize};

use crate::{
    appengine::{self, ConnScript},
    h1engine::{ConnEnd, SrvCfg},
    httpwire,
    runner::{self, explore, Report, RunCfg, Verdict},
    simnet::PeerOp,
    util,
};

const CODINGS: [&str; 8] = ["gzip", "deflate", "br", "zstd", "identity", "*", "compress", "x-foo"];
const QS: [&str; 8] = ["", ";q=0", ";q=0.0", ";q=0.001", ";q=0.5", ";q=1", ";q=1.0", "; q=0.999"];
const CTYPES: [&str; 6] = ["text/plain", "application/json", "image/png", "image/svg+xml", "video/mp4", "application/octet-stream"];

#[derive(Debug, Clone, Serialize, Deserialize, PartialEq, Eq, Hash)]
pub enum Kind {
    Bytes,
    Stream,
    /// `.insert_header((CONTENT_LENGTH, n)).streaming(..)`: a stream of known length
    KnownLengthStream,
    SizedStream,
}

#[derive(Debug, Clone, Serialize, Deserialize)]
pub enum Case {
    Response {
        status: u16,
        chunks: Vec<u32>,
        seed: u16,
        compressible: bool,
        kind: Kind,
        /// the handler's body is already encoded and labelled by the handler
        pre_encoded: Option<u8>,
        ctype: Option<u8>,
        /// Accept-Encoding members (coding index, q index); None = no header
        ae: Option<Vec<(u8, u8)>>,
        write_buf: u32,
    },
    Request {
        coding: u8,
        len: u32,
        seed: u16,
        compressible: bool,
        chunked: bool,
        cuts: Vec<u16>,
        /// drop this many bytes from the end of the encoded stream (0 = intact)
        truncate: u16,
    },
}

fn body_bytes(chunks: &[u32], seed: u16, compressible: bool) -> Vec<Vec<u8>> {
    let mut off = 0u64;
    chunks
        .iter()
        .map(|n| {
            let v: Vec<u8> = (0..*n as u64)
                .map(|i| if compressible { b"the quick brown fox "[((off + i) % 20) as usize] } else { util::data_byte(seed as u64, off + i) })
                .collect();
            off += *n as u64;
            v
        })
        .collect()
}

fn encode(coding: &str, data: &[u8]) -> Vec<u8> {
    match coding {
        "gzip" => {
            let mut e = flate2::write::GzEncoder::new(Vec::new(), flate2::Compression::fast());
            e.write_all(data).unwrap();
            e.finish().unwrap()
        }
        "deflate" => {
            let mut e = flate2::write::ZlibEncoder::new(Vec::new(), flate2::Compression::fast());
            e.write_all(data).unwrap();
            e.finish().unwrap()
        }
        "br" => {
            let mut out = Vec::new();
            {
                let mut w = brotli::CompressorWriter::new(&mut out, 4096, 3, 20);
                w.write_all(data).unwrap();
            }
            out
        }
        "zstd" => zstd::encode_all(data, 1).unwrap(),
        _ => data.to_vec(),
    }
}

fn decode(coding: &str, data: &[u8]) -> Result<Vec<u8>, String> {
    let mut out = vec![];
    match coding {
        "gzip" => flate2::read::GzDecoder::new(data).read_to_end(&mut out).map(|_| ()).map_err(|e| e.to_string())?,
        "deflate" => flate2::read::ZlibDecoder::new(data).read_to_end(&mut out).map(|_| ()).map_err(|e| e.to_string())?,
        "br" => brotli::Decompressor::new(data, 4096).read_to_end(&mut out).map(|_| ()).map_err(|e| e.to_string())?,
        "zstd" => out = zstd::decode_all(data).map_err(|e| e.to_string())?,
        "identity" | "" => out = data.to_vec(),
        other => return Err(format!("unknown content-encoding {other:?}")),
    }
    Ok(out)
}

/// RFC 7231 §5.3.4: is coding `c` acceptable for the given Accept-Encoding members?
fn acceptable(c: &str, ae: &Option<Vec<(String, f32)>>) -> bool {
    let Some(members) = ae else { return true };
    if members.is_empty() {
        // an empty field value: no content-coding wanted
        return c == "identity";
    }
    if let Some((_, q)) = members.iter().find(|(n, _)| n == c) {
        return *q > 0.0;
    }
    if let Some((_, q)) = members.iter().find(|(n, _)| n == "*") {
        return *q > 0.0;
    }
    c == "identity"
}

fn q_value(i: u8) -> f32 {
    match QS[i as usize % QS.len()] {
        "" | ";q=1" | ";q=1.0" => 1.0,
        ";q=0" | ";q=0.0" => 0.0,
        ";q=0.001" => 0.001,
        ";q=0.5" => 0.5,
        _ => 0.999,
    }
}

/// A body stream that, as `MessageBody::poll_next` allows, panics when it is polled again after
/// it has returned `Ready(None)`.
struct StrictStream {
    parts: std::collections::VecDeque<Vec<u8>>,
    ended: bool,
}

impl futures_core::Stream for StrictStream {
    type Item = Result<Bytes, actix_web::Error>;
    fn poll_next(mut self: std::pin::Pin<&mut Self>, _cx: &mut std::task::Context<'_>) -> std::task::Poll<Option<Self::Item>> {
        if self.ended {
            panic!("response body polled again after it had returned Ready(None)");
        }
        match self.parts.pop_front() {
            Some(p) => std::task::Poll::Ready(Some(Ok(Bytes::from(p)))),
            None => {
                self.ended = true;
                std::task::Poll::Ready(None)
            }
        }
    }
}

pub fn run_case(_cfg: &RunCfg, case: &Case) -> Verdict {
    match case {
        Case::Response { status, chunks, seed, compressible, kind, pre_encoded, ctype, ae, write_buf } => {
            let parts = body_bytes(chunks, *seed, *compressible);
            let plain: Vec<u8> = parts.concat();
            let pre = pre_encoded.map(|i| ["gzip", "br", "deflate"][i as usize % 3]);
            // what the handler hands over as its body bytes
            let handler_parts: Vec<Vec<u8>> = match pre {
                Some(c) => vec![encode(c, &plain)],
                None => parts.clone(),
            };
            let handler_bytes: Vec<u8> = handler_parts.concat();
            let bodiless = matches!(*status, 204 | 304);
            let mut ae_hdr = String::new();
            let mut ae_model: Option<Vec<(String, f32)>> = None;
            if let Some(members) = ae {
                let mut seen = vec![];
                let mut items = vec![];
                let mut model = vec![];
                for (c, q) in members {
                    let name = CODINGS[*c as usize % CODINGS.len()];
                    if seen.contains(&name) {
                        continue;
                    }
                    seen.push(name);
                    items.push(format!("{name}{}", QS[*q as usize % QS.len()]));
                    model.push((name.to_string(), q_value(*q)));
                }
                ae_hdr = format!("Accept-Encoding: {}\r\n", items.join(", "));
                ae_model = Some(model);
            }
            let input = format!("GET /c HTTP/1.1\r\nHost: x\r\n{ae_hdr}\r\n").into_bytes();
            let st = *status;
            let kind2 = kind.clone();
            let ct = ctype.map(|c| CTYPES[c as usize % CTYPES.len()]);
            let hp = handler_parts.clone();
            let make = move || {
                let handler = move || {
                    let hp = hp.clone();
                    let kind = kind2.clone();
                    async move {
                        let mut b = HttpResponse::build(StatusCode::from_u16(st).unwrap());
                        if let Some(ct) = ct {
                            b.insert_header(("content-type", ct));
                        }
                        if let Some(c) = pre {
                            b.insert_header(("content-encoding", c));
                        }
                        let total: usize = hp.iter().map(|p| p.len()).sum();
                        if matches!(st, 204 | 304) {
                            return b.finish();
                        }
                        let stream = StrictStream { parts: hp.clone().into_iter().collect(), ended: false };
                        match kind {
                            Kind::Bytes => b.body(hp.concat()),
                            Kind::Stream => b.streaming(stream),
                            Kind::KnownLengthStream => b.insert_header(("content-length", total.to_string())).streaming(stream),
                            Kind::SizedStream => b.body(actix_web::body::SizedStream::new(total as u64, stream)),
                        }
                    }
                };
                actix_service::map_config(App::new().wrap(Compress::default()).default_service(web::to(handler)), |_| AppConfig::default())
            };
            let outs = appengine::run_app(
                SrvCfg { write_buf: *write_buf, ..Default::default() },
                vec![ConnScript { id: 1, start_ms: 0, input: input.clone(), peer_ops: vec![PeerOp::Send(0, input.len()), PeerOp::WaitResps(1, 10_000), PeerOp::Eof], is_head: vec![false; 3] }],
                600_000,
                make,
            );
            let out = &outs[0];
            let threshold_split = plain.len() >= 1024 && chunks.len() >= 2 && chunks.iter().any(|c| *c < 1024) && chunks.iter().any(|c| *c >= 1024);
            let ae_tricky = ae_model.as_ref().is_some_and(|m| m.iter().any(|(n, q)| *q == 0.0 || n == "*"));
            let v = Verdict::ok()
                .nt((threshold_split && *compressible) || ae_tricky)
                .class_if(pre.is_some(), "already-encoded-by-handler")
                .class_if(bodiless, "bodiless-status")
                .class_if(*status == 206, "partial-content")
                .class_if(ae.is_none(), "no-accept-encoding")
                .class_if(ae_tricky, "q0-or-wildcard")
                .class_if(matches!(kind, Kind::KnownLengthStream), "known-length-stream")
                .class_if(ct.is_some_and(|c| c.starts_with("image/") || c.starts_with("video/")), "image-or-video-type");
            let ctx = || format!("[status {status}, body {} bytes in {} chunks ({kind:?}), pre-encoded {pre:?}, content-type {ct:?}, {}]", plain.len(), chunks.len(), ae_hdr.trim());
            match &out.end {
                ConnEnd::Panicked(p) => return v.fail_with(format!("panic: {p} {}", ctx())),
                ConnEnd::Stalled => return v.fail_with(format!("the response never finished (connection stalled) {}", ctx())),
                _ => {}
            }
            if std::env::var_os("VP_DEBUG").is_some() {
                eprintln!("wire: {}", util::show_bytes(&out.out, 600));
            }
            let parsed = httpwire::parse_responses(&out.out, &[false], out.closed);
            if let Some(e) = &parsed.error {
                return v.fail_with(format!("response is not a self-delimited HTTP/1 message: {e} {}", ctx()));
            }
            let Some(r) = parsed.responses.first() else {
                return v.fail_with(format!("no response on the wire (end {:?}) {}", out.end, ctx()));
            };
            if !r.complete {
                return v.fail_with(format!("response incomplete on the wire: framing {:?}, {} body bytes, end {:?} {}", r.framing, r.body_len, out.end, ctx()));
            }
            if r.status == 406 {
                // the server may decline; then nothing acceptable was available to it, which is
                // outside what the property constrains
                return v.class("406-not-acceptable");
            }
            if r.status != *status {
                return v.fail_with(format!("status {} instead of {status} {}", r.status, ctx()));
            }
            let ce = r.header("content-encoding").map(|s| s.trim().to_ascii_lowercase()).unwrap_or_default();
            // (an empty body of *known* size is not encoded; an empty stream of unknown size is)
            let must_pass_through = pre.is_some() || bodiless || *status == 206 || (plain.is_empty() && !matches!(kind, Kind::Stream));
            if must_pass_through {
                let want_ce = pre.unwrap_or("");
                if ce != want_ce {
                    return v.fail_with(format!("pass-through response has content-encoding {ce:?}, the handler set {want_ce:?} {}", ctx()));
                }
                let want_body: &[u8] = if bodiless { &[] } else { &handler_bytes };
                if r.body != want_body {
                    return v.fail_with(format!("pass-through response body changed: {} bytes on the wire, handler produced {} {}", r.body.len(), want_body.len(), ctx()));
                }
                return v;
            }
            // decode with the library named by the label
            let decoded = match decode(&ce, &r.body) {
                Ok(d) => d,
                Err(e) => return v.fail_with(format!("body labelled {ce:?} does not decode with that coding: {e} ({} wire bytes) {}", r.body.len(), ctx())),
            };
            if decoded != plain {
                return v.fail_with(format!(
                    "decoding the body with its label {ce:?} gives {} bytes, the handler produced {} bytes (first difference at {:?}) {}",
                    decoded.len(),
                    plain.len(),
                    decoded.iter().zip(plain.iter()).position(|(a, b)| a != b),
                    ctx()
                ));
            }
            // negotiation
            let chosen = if ce.is_empty() { "identity" } else { ce.as_str() };
            let exempt_type = ct.is_some_and(|c| (c.starts_with("image/") && c != "image/svg+xml") || c.starts_with("video/"));
            if !acceptable(chosen, &ae_model) && !(chosen == "identity" && exempt_type) {
                return v.fail_with(format!("the response uses coding {chosen:?}, which the request's Accept-Encoding does not permit {}", ctx()));
            }
            // a stale length header must not accompany an encoded body (the parser already framed
            // the message by it; this is the explicit statement)
            if chosen != "identity" {
                if let Some(cl) = r.header("content-length") {
                    if cl.trim().parse::<usize>().ok() != Some(r.body.len()) || cl.trim().parse::<usize>().ok() == Some(plain.len()) && r.body.len() != plain.len() {
                        return v.fail_with(format!("content-length {cl} sent with an encoded body of {} bytes {}", r.body.len(), ctx()));
                    }
                }
            }
            v
        }

        Case::Request { coding, len, seed, compressible, chunked, cuts, truncate } => {
            let c = ["gzip", "deflate", "br", "zstd"][*coding as usize % 4];
            let plain: Vec<u8> = body_bytes(&[*len], *seed, *compressible).concat();
            let mut enc = encode(c, &plain);
            let cut_off = (*truncate as usize).min(enc.len().saturating_sub(1));
            let truncated = cut_off > 0 && enc.len() > 1;
            if truncated {
                enc.truncate(enc.len() - cut_off);
            }
            let mut input = format!("POST /echo HTTP/1.1\r\nHost: x\r\nContent-Encoding: {c}\r\nContent-Type: application/octet-stream\r\n").into_bytes();
            if *chunked {
                input.extend_from_slice(b"Transfer-Encoding: chunked\r\n\r\n");
                let pts: Vec<usize> = cuts.iter().map(|x| util::pick_idx(*x, enc.len() + 1)).collect();
                for p in crate::streams::split_at(&enc, &pts) {
                    if !p.is_empty() {
                        input.extend_from_slice(format!("{:x}\r\n", p.len()).as_bytes());
                        input.extend_from_slice(&p);
                        input.extend_from_slice(b"\r\n");
                    }
                }
                input.extend_from_slice(b"0\r\n\r\n");
            } else {
                input.extend_from_slice(format!("Content-Length: {}\r\n\r\n", enc.len()).as_bytes());
                input.extend_from_slice(&enc);
            }
            let total = input.len();
            let mut ops = vec![];
            let mut prev = 0;
            let mut seg: Vec<usize> = cuts.iter().map(|x| util::pick_idx(*x, total + 1)).filter(|p| *p > 0 && *p < total).collect();
            seg.sort_unstable();
            seg.dedup();
            for p in seg {
                ops.push(PeerOp::Send(prev, p));
                ops.push(PeerOp::Yield);
                prev = p;
            }
            ops.push(PeerOp::Send(prev, total));
            ops.push(PeerOp::WaitResps(1, 10_000));
            ops.push(PeerOp::Eof);
            let make = || {
                let echo = |body: web::Bytes| async move { HttpResponse::Ok().insert_header(("content-type", "application/octet-stream")).body(body) };
                actix_service::map_config(
                    App::new().app_data(web::PayloadConfig::new(64 << 20)).route("/echo", web::post().to(echo)),
                    |_| AppConfig::default(),
                )
            };
            let outs = appengine::run_app(SrvCfg::default(), vec![ConnScript { id: 1, start_ms: 0, input, peer_ops: ops, is_head: vec![false; 3] }], 600_000, make);
            let out = &outs[0];
            let v = Verdict::ok().nt(true).class_if(truncated, "truncated-compressed-stream").class_if(*chunked, "chunked-request");
            let ctx = || format!("[request body {} bytes, coding {c}, encoded {} bytes, truncated by {cut_off}, chunked {chunked}]", plain.len(), enc.len());
            match &out.end {
                ConnEnd::Panicked(p) => return v.fail_with(format!("panic: {p} {}", ctx())),
                ConnEnd::Stalled => return v.fail_with(format!("connection stalled {}", ctx())),
                _ => {}
            }
            let parsed = httpwire::parse_responses(&out.out, &[false], out.closed);
            let Some(r) = parsed.responses.first().filter(|r| r.complete && parsed.error.is_none()) else {
                return v.fail_with(format!("no complete response (parse error {:?}, end {:?}) {}", parsed.error, out.end, ctx()));
            };
            if truncated {
                // (a cut that only removed trailer/checksum bytes can still yield the complete body;
                // what must not happen is a *short* success)
                // The property speaks about bodies sent with a supported coding, i.e. complete
                // streams; what a decoder does with a stream cut short by a broken client (the
                // HTTP framing itself was complete) is recorded, not judged: flate2's write-side
                // decoders accept an incomplete zlib/gzip stream at finish().
                if r.status == 200 && r.body != plain {
                    return v.class("truncated-stream-delivered-short (observation, not claimed)");
                }
                // it must at least never deliver bytes that are not a prefix of the original
                if r.status == 200 && !plain.starts_with(&r.body) {
                    return v.fail_with(format!("truncated {c} stream decoded to bytes that are not a prefix of the original {}", ctx()));
                }
            } else if r.status != 200 || r.body != plain {
                return v.fail_with(format!("request body sent with Content-Encoding {c} reached the handler as status {} / {} bytes, equal: {} {}", r.status, r.body.len(), r.body == plain, ctx()));
            }
            v
        }
    }
}

fn chunks_strategy() -> impl Strategy<Value = Vec<u32>> {
    prop_oneof![
        1 => Just(vec![]),
        2 => proptest::collection::vec(prop_oneof![Just(1u32), Just(1023u32), Just(1024u32), Just(1025u32), Just(2048u32), Just(2049u32), 1u32..300], 1..4),
        3 => proptest::collection::vec(prop_oneof![3 => 1u32..1024, 3 => 1024u32..5000, 1 => 5000u32..70_000], 1..8),
        1 => proptest::collection::vec(Just(100_000u32), 1..3),
    ]
}

fn response_case() -> impl Strategy<Value = Case> {
    (
        prop_oneof![8 => Just(200u16), 1 => Just(204u16), 1 => Just(206u16), 1 => Just(304u16), 1 => Just(404u16)],
        chunks_strategy(),
        any::<u16>(),
        proptest::bool::weighted(0.6),
        prop_oneof![3 => Just(Kind::Bytes), 3 => Just(Kind::Stream), 2 => Just(Kind::KnownLengthStream), 1 => Just(Kind::SizedStream)],
        proptest::option::weighted(0.12, 0u8..3),
        proptest::option::weighted(0.6, 0u8..6),
        proptest::option::weighted(0.9, proptest::collection::vec((0u8..8, 0u8..8), 0..4)),
        prop_oneof![3 => Just(32_768u32), 1 => Just(512u32), 1 => Just(1u32)],
    )
        .prop_map(|(status, chunks, seed, compressible, kind, pre_encoded, ctype, ae, write_buf)| Case::Response { status, chunks, seed, compressible, kind, pre_encoded, ctype, ae, write_buf })
}

fn request_case() -> impl Strategy<Value = Case> {
    (
        0u8..4,
        prop_oneof![Just(0u32), 1u32..2000, 2000u32..200_000],
        any::<u16>(),
        any::<bool>(),
        any::<bool>(),
        proptest::collection::vec(any::<u16>(), 0..5),
        prop_oneof![3 => Just(0u16), 2 => 1u16..20, 1 => 20u16..2000],
    )
        .prop_map(|(coding, len, seed, compressible, chunked, cuts, truncate)| Case::Request { coding, len, seed, compressible, chunked, cuts, truncate })
}

pub fn run(cfg: &RunCfg) -> Report {
    let mut rep = Report::new("C13");
    rep.rule = "phase response: App wrapped in Compress behind the real h1 stack; body of 0-8 chunks with sizes at 1/1023/1024/1025/2048/2049 and up to 100 KB, compressible or not, as Bytes / stream / stream with a declared Content-Length / SizedStream, status 200/204/206/304/404, optionally already encoded and labelled by the handler, content types incl. image and video, Accept-Encoding from a grammar (gzip deflate br zstd identity * compress x-foo with q in 0, 0.0, 0.001, 0.5, 1, 1.0, 0.999, OWS; absent; empty), write buffer 1/512/32768; phase request: bodies of 0-200 KB encoded with the codec libraries, sent with Content-Encoding gzip/deflate/br/zstd, Content-Length or chunked framing, random segmentation, optionally truncated by 1-2000 bytes; \
                non-trivial = a compressible body >= 1 KiB in >= 2 chunks on both sides of the 1024-byte threshold, or an Accept-Encoding with a q=0 or wildcard member, or any request-side case; distinct by hash of the case"
        .into();
    rep.assumptions = vec![
        "the response body is decoded with flate2 / brotli / zstd directly, not through actix".into(),
        "acceptability per RFC 7231 5.3.4: explicit member decides by q > 0, else the * member, else only identity; an empty Accept-Encoding means identity only; headers with two members for the same coding are not generated".into(),
        "a 406 is accepted whenever the server declines; image/* (except svg) and video/* responses are sent unencoded by design and are exempt from the identity-acceptability check".into(),
        "pass-through classes: Content-Encoding already set by the handler, 204, 304, 206, empty body".into(),
    ];
    runner::replay_pinned(&mut rep, cfg, &replay);
    runner::replay_regress(&mut rep, cfg, &replay);
    explore(&mut rep, cfg, "response", cfg.cases(60_000, 1_200_000), response_case, |c| run_case(cfg, c));
    explore(&mut rep, cfg, "request", cfg.cases(30_000, 600_000), request_case, |c| run_case(cfg, c));
    rep
}

pub fn replay(cfg: &RunCfg, _phase: &str, case: &serde_json::Value) -> Result<Verdict, String> {
    let c: Case = runner::from_json(case)?;
    Ok(run_case(cfg, &c))
}
