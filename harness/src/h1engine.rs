//! E1 part 3 — the real `HttpService` / h1 dispatcher driven over `simnet` under a paused clock,
//! with interpreted handler and response-body programs.

use std::{
    cell::RefCell,
    future::Future,
    pin::Pin,
    rc::Rc,
    task::{Context, Poll},
    time::Duration,
};

use actix_http::{
    body::{BodySize, BodyStream, BoxBody, MessageBody, SizedStream},
    HttpMessage as _, HttpService, KeepAlive, Protocol, Request, Response, StatusCode,
};
use actix_service::{fn_service, Service, ServiceFactory};
use bytes::Bytes;
use futures_core::Stream;
use serde::{Deserialize, Serialize};
use tokio::time::Instant;

use crate::{
    httpwire,
    simnet::{self, Peer, PeerOp, WOp},
    util,
};

// ------------------------------------------------------------------------------------------
// Case-level descriptions
// ------------------------------------------------------------------------------------------

#[derive(Debug, Clone, Serialize, Deserialize, PartialEq, Eq, Hash)]
pub enum KaCfg {
    Disabled,
    Os,
    Timeout(u32),
}

#[derive(Debug, Clone, Serialize, Deserialize, PartialEq, Eq, Hash)]
pub struct SrvCfg {
    pub ka: KaCfg,
    /// 0 = disabled
    pub req_timeout_ms: u32,
    /// 0 = disabled
    pub disc_timeout_ms: u32,
    pub half_closed: bool,
    pub write_buf: u32,
    /// fire the graceful-shutdown signal at this virtual time
    pub shutdown_signal_ms: Option<u32>,
    /// fire the graceful-shutdown signal just before the peer releases the segment starting at this
    /// input offset, in the same scheduler turn (the connection sees signal and bytes in one poll)
    #[serde(default)]
    pub shutdown_signal_at_input: Option<u32>,
    pub expect_delay_ms: u16,
    pub expect_reject: bool,
    /// delay (virtual ms) between service construction and connection accept; lets the cached
    /// clock be stale by a controlled amount
    pub accept_delay_ms: u16,
}

impl Default for SrvCfg {
    fn default() -> Self {
        SrvCfg {
            ka: KaCfg::Timeout(5000),
            req_timeout_ms: 0,
            disc_timeout_ms: 0,
            half_closed: true,
            write_buf: 32768,
            shutdown_signal_ms: None,
            shutdown_signal_at_input: None,
            expect_delay_ms: 0,
            expect_reject: false,
            accept_delay_ms: 0,
        }
    }
}

#[derive(Debug, Clone, Serialize, Deserialize, PartialEq, Eq, Hash)]
pub enum ReadProg {
    /// read the request body to its end (clean or error)
    All,
    /// read until at least n bytes were seen, then stop (payload kept until the handler returns)
    UpTo(u32),
    /// keep the payload alive but never poll it
    Hold,
    /// drop the payload immediately
    DropNow,
}

#[derive(Debug, Clone, Serialize, Deserialize, PartialEq, Eq, Hash)]
pub enum CustomHint {
    None,
    Sized(u32),
    Stream,
}

#[derive(Debug, Clone, Serialize, Deserialize, PartialEq, Eq, Hash)]
pub enum BodyKind {
    /// `Response` with `()` body
    Unit,
    /// `Bytes` body (all chunks concatenated)
    Bytes,
    /// real `SizedStream::new(declared, stream)`
    SizedStream(u32),
    /// real `BodyStream::new(stream)`
    Stream,
    /// harness `MessageBody` impl with the given size hint, passing chunks through as they are
    Custom(CustomHint),
    /// response body = request payload stream (proxy-style echo)
    Echo,
}

#[derive(Debug, Clone, Serialize, Deserialize, PartialEq, Eq, Hash)]
pub struct ChunkProg {
    pub len: u32,
    /// number of `Pending` (self-woken) returns before the chunk is yielded
    pub pending: u8,
    /// timer-driven delay before the chunk is yielded
    pub delay_ms: u16,
}

#[derive(Debug, Clone, Serialize, Deserialize, PartialEq, Eq, Hash)]
pub struct BodyProg {
    pub kind: BodyKind,
    pub chunks: Vec<ChunkProg>,
    /// after the chunks: end with an error instead of a clean end
    pub fail_at_end: bool,
    pub seed: u64,
    pub style: u8,
}

impl BodyProg {
    pub fn empty() -> Self {
        BodyProg {
            kind: BodyKind::Unit,
            chunks: vec![],
            fail_at_end: false,
            seed: 0,
            style: 1,
        }
    }
    pub fn bytes(len: u32, seed: u64) -> Self {
        BodyProg {
            kind: BodyKind::Bytes,
            chunks: vec![ChunkProg {
                len,
                pending: 0,
                delay_ms: 0,
            }],
            fail_at_end: false,
            seed,
            style: 1,
        }
    }
    pub fn total_len(&self) -> usize {
        self.chunks.iter().map(|c| c.len as usize).sum()
    }
    pub fn all_bytes(&self) -> Vec<u8> {
        util::data(self.seed, self.style, self.total_len())
    }
    pub fn has_empty_chunk(&self) -> bool {
        self.chunks.iter().any(|c| c.len == 0)
    }
}

#[derive(Debug, Clone, Serialize, Deserialize, PartialEq, Eq, Hash)]
pub struct RespProg {
    pub status: u16,
    pub force_close: bool,
    pub keep_alive: bool,
    /// user-set Content-Length header (through insert_header)
    pub user_cl: Option<u32>,
    /// user-set `Transfer-Encoding: chunked` header
    pub user_te: bool,
    /// `no_chunking(total_len)`
    pub no_chunking: bool,
    pub headers: Vec<(String, String)>,
    pub body: BodyProg,
}

impl RespProg {
    pub fn ok_bytes(len: u32, seed: u64) -> Self {
        RespProg {
            status: 200,
            force_close: false,
            keep_alive: false,
            user_cl: None,
            user_te: false,
            no_chunking: false,
            headers: vec![],
            body: BodyProg::bytes(len, seed),
        }
    }
}

#[derive(Debug, Clone, Serialize, Deserialize, PartialEq, Eq, Hash)]
pub struct HandlerProg {
    /// scheduler yields before anything else (progress by polls, not by time)
    #[serde(default)]
    pub pre_yields: u32,
    pub pre_delay_ms: u16,
    pub read: ReadProg,
    /// sleep after every chunk read from the request body
    pub read_pace_ms: u16,
    pub post_delay_ms: u16,
    /// return `Err` (service error → error response) instead of the response
    pub fail: bool,
    pub resp: RespProg,
}

impl HandlerProg {
    pub fn simple() -> Self {
        HandlerProg {
            pre_yields: 0,
            pre_delay_ms: 0,
            read: ReadProg::All,
            read_pace_ms: 0,
            post_delay_ms: 0,
            fail: false,
            resp: RespProg::ok_bytes(5, 1),
        }
    }
}

// ------------------------------------------------------------------------------------------
// Logs
// ------------------------------------------------------------------------------------------

#[derive(Debug, Clone, PartialEq, Eq, Serialize)]
pub enum BodyEnd {
    NoPayload,
    Clean,
    Error(String),
    /// the handler stopped reading after this many bytes
    Stopped,
    Held,
    Dropped,
    /// the handler future was dropped before it finished reading
    Aborted,
}

#[derive(Debug, Clone, Serialize)]
pub struct ReqLog {
    pub idx: usize,
    pub method: String,
    pub target: String,
    pub version: u8,
    pub headers: Vec<(String, Vec<String>)>,
    #[serde(skip)]
    pub body: Vec<u8>,
    pub body_len: usize,
    pub body_hash: u64,
    pub chunks: usize,
    pub end: BodyEnd,
    pub t_dispatch: u64,
    pub t_body_end: Option<u64>,
    pub t_return: Option<u64>,
    pub has_payload: bool,
}

#[derive(Debug, Clone, Default, Serialize)]
pub struct RespLog {
    pub idx: usize,
    pub created: bool,
    pub chunks_pulled: usize,
    pub bytes_pulled: usize,
    /// the body reported its end (None) or its error to the dispatcher
    pub ended: bool,
    pub errored: bool,
    pub dropped_at: Option<u64>,
    pub first_poll_at: Option<u64>,
}

#[derive(Debug, Default)]
pub struct Log {
    pub reqs: Vec<ReqLog>,
    pub resps: Vec<RespLog>,
    /// max over time of (body bytes pulled so far on this connection − bytes accepted by socket)
    pub max_pulled_ahead: i64,
    pub total_pulled: usize,
    pub total_overhead_est: usize,
    pub expect_calls: u32,
    pub head_lens: Vec<usize>,
    pub no_capture: bool,
}

#[derive(Debug, Clone, Serialize)]
pub enum ConnEnd {
    Ok,
    Err(String),
    Stalled,
    Panicked(String),
}

#[derive(Debug)]
pub struct Outcome {
    pub out: Vec<u8>,
    pub out_log: Vec<(u64, usize)>,
    pub reqs: Vec<ReqLog>,
    pub resps: Vec<RespLog>,
    pub end: ConnEnd,
    pub end_at: u64,
    pub shutdown_at: Option<u64>,
    pub dropped_at: Option<u64>,
    pub write_after_shutdown: usize,
    pub taken: usize,
    pub taken_log: Vec<(u64, usize)>,
    pub max_inflight: i64,
    /// `max_inflight` as it stood each time a handler returned
    pub inflight_marks: Vec<i64>,
    pub max_pulled_ahead: i64,
    pub read_pending: u32,
    pub read_pending_with_more: u32,
    pub write_pending: u32,
    pub partial_writes: u32,
    pub flush_pending: u32,
    pub eof_seen: bool,
    pub expect_calls: u32,
    pub peer_done_at: Option<u64>,
    pub input_len: usize,
    pub max_queued: i64,
    pub send_log: Vec<(u64, usize, usize)>,
    /// virtual ms the adversarial socket spent refusing writes / flushes
    pub blocked_ms: u64,
    pub write_calls: u32,
    /// high-water mark of bytes allocated on this thread while the scenario ran (includes the
    /// harness's own logs and output copy)
    pub alloc_peak: isize,
}

impl Outcome {
    pub fn closed(&self) -> bool {
        self.shutdown_at.is_some() || self.dropped_at.is_some()
    }
    pub fn close_time(&self) -> Option<u64> {
        match (self.shutdown_at, self.dropped_at) {
            (Some(a), Some(b)) => Some(a.min(b)),
            (a, b) => a.or(b),
        }
    }
    pub fn time_of_out_offset(&self, off: usize) -> Option<u64> {
        self.out_log.iter().find(|(_, l)| *l > off).map(|(t, _)| *t)
    }
}

// ------------------------------------------------------------------------------------------
// Body programs
// ------------------------------------------------------------------------------------------

struct ProgStreamState {
    prog: BodyProg,
    next: usize,
    off: usize,
    pending_left: u8,
    sleep: Option<Pin<Box<tokio::time::Sleep>>>,
    slept: bool,
    log: Rc<RefCell<Log>>,
    idx: usize,
    peer: Peer,
    done: bool,
    ended_clean: bool,
}

impl ProgStreamState {
    fn new(prog: BodyProg, log: Rc<RefCell<Log>>, idx: usize, peer: Peer) -> Self {
        let pending_left = prog.chunks.first().map(|c| c.pending).unwrap_or(0);
        ProgStreamState {
            prog,
            next: 0,
            off: 0,
            pending_left,
            sleep: None,
            slept: false,
            log,
            idx,
            peer,
            done: false,
            ended_clean: false,
        }
    }

    fn poll_chunk(&mut self, cx: &mut Context<'_>) -> Poll<Option<Result<Bytes, std::io::Error>>> {
        {
            let mut l = self.log.borrow_mut();
            let now = self.peer.now_ms();
            let r = &mut l.resps[self.idx];
            if r.first_poll_at.is_none() {
                r.first_poll_at = Some(now);
            }
        }
        if self.done {
            // `MessageBody::poll_next`: once `Ready(None)` was returned the body must not be
            // polled again (it "may panic, block forever, or cause other kinds of problems"): this
            // body is one of those that panic. After an error it just stays ended.
            if self.ended_clean {
                panic!("response body polled again after it had returned Ready(None)");
            }
            return Poll::Ready(None);
        }
        if self.next >= self.prog.chunks.len() {
            self.done = true;
            self.ended_clean = !self.prog.fail_at_end;
            let mut l = self.log.borrow_mut();
            let r = &mut l.resps[self.idx];
            r.ended = true;
            if self.prog.fail_at_end {
                r.errored = true;
                return Poll::Ready(Some(Err(std::io::Error::other("sim: body program error"))));
            }
            return Poll::Ready(None);
        }
        let c = self.prog.chunks[self.next].clone();
        if c.delay_ms > 0 && !self.slept {
            if self.sleep.is_none() {
                self.sleep = Some(Box::pin(tokio::time::sleep(Duration::from_millis(
                    c.delay_ms as u64,
                ))));
            }
            match self.sleep.as_mut().unwrap().as_mut().poll(cx) {
                Poll::Pending => return Poll::Pending,
                Poll::Ready(()) => {
                    self.sleep = None;
                    self.slept = true;
                }
            }
        }
        if self.pending_left > 0 {
            self.pending_left -= 1;
            cx.waker().wake_by_ref();
            return Poll::Pending;
        }
        // yield the chunk
        let len = c.len as usize;
        let data: Vec<u8> = match self.prog.style {
            0 => (0..len as u64)
                .map(|i| util::data_byte(self.prog.seed, self.off as u64 + i))
                .collect(),
            1 => (0..len as u64)
                .map(|i| b'a' + util::data_byte(self.prog.seed, self.off as u64 + i) % 26)
                .collect(),
            _ => {
                let all = util::data(self.prog.seed, self.prog.style, self.off + len);
                all[self.off..].to_vec()
            }
        };
        self.off += len;
        self.next += 1;
        self.slept = false;
        self.pending_left = self.prog.chunks.get(self.next).map(|c| c.pending).unwrap_or(0);
        {
            let mut l = self.log.borrow_mut();
            l.total_pulled += len;
            let ahead = l.total_pulled as i64 - self.peer.out_len() as i64;
            if ahead > l.max_pulled_ahead {
                l.max_pulled_ahead = ahead;
            }
            let r = &mut l.resps[self.idx];
            r.chunks_pulled += 1;
            r.bytes_pulled += len;
        }
        Poll::Ready(Some(Ok(Bytes::from(data))))
    }
}

impl Drop for ProgStreamState {
    fn drop(&mut self) {
        let now = self.peer.now_ms();
        if let Ok(mut l) = self.log.try_borrow_mut() {
            l.resps[self.idx].dropped_at = Some(now);
        }
    }
}

struct ProgStream(ProgStreamState);

impl Stream for ProgStream {
    type Item = Result<Bytes, std::io::Error>;
    fn poll_next(mut self: Pin<&mut Self>, cx: &mut Context<'_>) -> Poll<Option<Self::Item>> {
        self.0.poll_chunk(cx)
    }
}

struct CustomBody {
    st: ProgStreamState,
    hint: CustomHint,
}

impl MessageBody for CustomBody {
    type Error = std::io::Error;
    fn size(&self) -> BodySize {
        match self.hint {
            CustomHint::None => BodySize::None,
            CustomHint::Sized(n) => BodySize::Sized(n as u64),
            CustomHint::Stream => BodySize::Stream,
        }
    }
    fn poll_next(
        mut self: Pin<&mut Self>,
        cx: &mut Context<'_>,
    ) -> Poll<Option<Result<Bytes, Self::Error>>> {
        self.st.poll_chunk(cx)
    }
}

/// Echo body: streams the request payload back; logs like a program body.
struct EchoBody {
    payload: actix_http::Payload,
    log: Rc<RefCell<Log>>,
    idx: usize,
    peer: Peer,
}

impl Drop for EchoBody {
    fn drop(&mut self) {
        let now = self.peer.now_ms();
        if let Ok(mut l) = self.log.try_borrow_mut() {
            l.resps[self.idx].dropped_at = Some(now);
        }
    }
}

impl MessageBody for EchoBody {
    type Error = actix_http::error::PayloadError;
    fn size(&self) -> BodySize {
        BodySize::Stream
    }
    fn poll_next(
        mut self: Pin<&mut Self>,
        cx: &mut Context<'_>,
    ) -> Poll<Option<Result<Bytes, Self::Error>>> {
        let this = &mut *self;
        match Pin::new(&mut this.payload).poll_next(cx) {
            Poll::Pending => Poll::Pending,
            Poll::Ready(None) => {
                let mut l = this.log.borrow_mut();
                l.resps[this.idx].ended = true;
                let now = this.peer.now_ms();
                let r = &mut l.reqs[this.idx];
                r.end = BodyEnd::Clean;
                r.t_body_end = Some(now);
                Poll::Ready(None)
            }
            Poll::Ready(Some(Ok(b))) => {
                let mut l = this.log.borrow_mut();
                let l = &mut *l;
                l.total_pulled += b.len();
                let ahead = l.total_pulled as i64 - this.peer.out_len() as i64;
                if ahead > l.max_pulled_ahead {
                    l.max_pulled_ahead = ahead;
                }
                {
                    let r = &mut l.resps[this.idx];
                    r.chunks_pulled += 1;
                    r.bytes_pulled += b.len();
                }
                let rq = &mut l.reqs[this.idx];
                rq.body_len += b.len();
                rq.chunks += 1;
                if rq.body.len() < (1 << 22) && !l.no_capture {
                    l.reqs[this.idx].body.extend_from_slice(&b);
                }
                drop(l);
                this.peer.delivered_body(b.len());
                Poll::Ready(Some(Ok(b)))
            }
            Poll::Ready(Some(Err(e))) => {
                let mut l = this.log.borrow_mut();
                let r = &mut l.resps[this.idx];
                r.ended = true;
                r.errored = true;
                let now = this.peer.now_ms();
                let rq = &mut l.reqs[this.idx];
                rq.end = BodyEnd::Error(format!("{e:?}"));
                rq.t_body_end = Some(now);
                Poll::Ready(Some(Err(e)))
            }
        }
    }
}

fn build_response(
    prog: &RespProg,
    idx: usize,
    log: &Rc<RefCell<Log>>,
    peer: &Peer,
    payload: Option<actix_http::Payload>,
) -> Response<BoxBody> {
    let status = StatusCode::from_u16(prog.status).unwrap_or(StatusCode::OK);
    let mut b = Response::build(status);
    if prog.force_close {
        b.force_close();
    }
    if prog.keep_alive {
        b.keep_alive();
    }
    for (n, v) in &prog.headers {
        b.append_header((n.as_str(), v.as_str()));
    }
    if let Some(cl) = prog.user_cl {
        b.insert_header(("content-length", cl.to_string()));
    }
    if prog.user_te {
        b.insert_header(("transfer-encoding", "chunked"));
    }
    if prog.no_chunking {
        b.no_chunking(prog.body.total_len() as u64);
    }
    log.borrow_mut().resps[idx].created = true;
    let res = b.finish().map_into_boxed_body();
    let body: BoxBody = match &prog.body.kind {
        BodyKind::Unit => {
            log.borrow_mut().resps[idx].ended = true;
            BoxBody::new(())
        }
        BodyKind::Bytes => {
            let data = prog.body.all_bytes();
            {
                let mut l = log.borrow_mut();
                l.resps[idx].chunks_pulled = 1;
                l.resps[idx].bytes_pulled = data.len();
                l.resps[idx].ended = true;
            }
            BoxBody::new(Bytes::from(data))
        }
        BodyKind::SizedStream(declared) => BoxBody::new(SizedStream::new(
            *declared as u64,
            ProgStream(ProgStreamState::new(
                prog.body.clone(),
                log.clone(),
                idx,
                peer.clone(),
            )),
        )),
        BodyKind::Stream => BoxBody::new(BodyStream::new(ProgStream(ProgStreamState::new(
            prog.body.clone(),
            log.clone(),
            idx,
            peer.clone(),
        )))),
        BodyKind::Custom(hint) => BoxBody::new(CustomBody {
            st: ProgStreamState::new(prog.body.clone(), log.clone(), idx, peer.clone()),
            hint: hint.clone(),
        }),
        BodyKind::Echo => match payload {
            Some(p) => BoxBody::new(EchoBody {
                payload: p,
                log: log.clone(),
                idx,
                peer: peer.clone(),
            }),
            None => BoxBody::new(()),
        },
    };
    res.set_body(body)
}

/// Service error of the harness handlers: becomes an empty response with the given status.
#[derive(Debug)]
pub struct SimErr(pub u16);

impl From<SimErr> for Response<BoxBody> {
    fn from(e: SimErr) -> Self {
        Response::new(StatusCode::from_u16(e.0).unwrap_or(StatusCode::INTERNAL_SERVER_ERROR))
            .map_into_boxed_body()
    }
}

struct AbortGuard {
    log: Rc<RefCell<Log>>,
    idx: usize,
    armed: bool,
}

impl Drop for AbortGuard {
    fn drop(&mut self) {
        if self.armed {
            if let Ok(mut l) = self.log.try_borrow_mut() {
                if let Some(r) = l.reqs.get_mut(self.idx) {
                    if r.t_return.is_none() && matches!(r.end, BodyEnd::Held | BodyEnd::Stopped) {
                        r.end = BodyEnd::Aborted;
                    }
                }
            }
        }
    }
}

async fn handle(
    mut req: Request,
    progs: Rc<Vec<HandlerProg>>,
    log: Rc<RefCell<Log>>,
    peer: Peer,
) -> Result<Response<BoxBody>, SimErr> {
    use futures_util::StreamExt as _;
    let idx;
    {
        let mut l = log.borrow_mut();
        idx = l.reqs.len();
        let mut flat = vec![];
        for (n, v) in req.headers().iter() {
            flat.push((
                n.as_str().to_string(),
                String::from_utf8_lossy(v.as_bytes()).trim().to_string(),
            ));
        }
        let has_payload = !matches!(req.payload(), actix_http::Payload::None);
        l.reqs.push(ReqLog {
            idx,
            method: req.method().as_str().to_string(),
            target: req
                .uri()
                .path_and_query()
                .map(|p| p.as_str().to_string())
                .unwrap_or_else(|| req.uri().to_string()),
            version: if req.version() == actix_http::Version::HTTP_10 {
                0
            } else {
                1
            },
            headers: httpwire::group_headers(flat),
            body: vec![],
            body_len: 0,
            body_hash: 0,
            chunks: 0,
            end: if has_payload {
                BodyEnd::Held
            } else {
                BodyEnd::NoPayload
            },
            t_dispatch: peer.now_ms(),
            t_body_end: None,
            t_return: None,
            has_payload,
        });
        l.resps.push(RespLog {
            idx,
            ..Default::default()
        });
        if let Some(h) = l.head_lens.get(idx).copied() {
            drop(l);
            peer.delivered(h);
        }
    }
    let prog = progs
        .get(idx)
        .cloned()
        .unwrap_or_else(HandlerProg::simple);
    let mut guard = AbortGuard {
        log: log.clone(),
        idx,
        armed: true,
    };
    let mut payload = Some(req.take_payload());
    if matches!(prog.read, ReadProg::DropNow) && !matches!(prog.resp.body.kind, BodyKind::Echo) {
        payload = None;
        let mut l = log.borrow_mut();
        if l.reqs[idx].has_payload {
            l.reqs[idx].end = BodyEnd::Dropped;
        }
    }
    for _ in 0..prog.pre_yields {
        tokio::task::yield_now().await;
    }
    if prog.pre_delay_ms > 0 {
        tokio::time::sleep(Duration::from_millis(prog.pre_delay_ms as u64)).await;
    }
    let echo = matches!(prog.resp.body.kind, BodyKind::Echo);
    if !echo {
        let limit = match prog.read {
            ReadProg::All => Some(usize::MAX),
            ReadProg::UpTo(n) => Some(n as usize),
            _ => None,
        };
        if let (Some(limit), Some(pl)) = (limit, payload.as_mut()) {
            let has_payload = log.borrow().reqs[idx].has_payload;
            if has_payload {
                log.borrow_mut().reqs[idx].end = BodyEnd::Stopped;
                let mut seen = 0usize;
                while seen < limit {
                    match pl.next().await {
                        Some(Ok(b)) => {
                            seen += b.len();
                            {
                                let mut l = log.borrow_mut();
                                let l = &mut *l;
                                let r = &mut l.reqs[idx];
                                r.body_len += b.len();
                                r.chunks += 1;
                                if r.body.len() < (1 << 22) && !l.no_capture {
                                    l.reqs[idx].body.extend_from_slice(&b);
                                }
                            }
                            peer.delivered_body(b.len());
                            if prog.read_pace_ms > 0 {
                                tokio::time::sleep(Duration::from_millis(prog.read_pace_ms as u64))
                                    .await;
                            }
                        }
                        Some(Err(e)) => {
                            let mut l = log.borrow_mut();
                            l.reqs[idx].end = BodyEnd::Error(format!("{e:?}"));
                            l.reqs[idx].t_body_end = Some(peer.now_ms());
                            break;
                        }
                        None => {
                            let mut l = log.borrow_mut();
                            l.reqs[idx].end = BodyEnd::Clean;
                            l.reqs[idx].t_body_end = Some(peer.now_ms());
                            break;
                        }
                    }
                }
            }
        }
    }
    if prog.post_delay_ms > 0 {
        tokio::time::sleep(Duration::from_millis(prog.post_delay_ms as u64)).await;
    }
    guard.armed = false;
    {
        peer.mark_inflight();
        let mut l = log.borrow_mut();
        l.reqs[idx].t_return = Some(peer.now_ms());
        let r = &mut l.reqs[idx];
        r.body_hash = util::hash_bytes(&r.body);
    }
    if prog.fail {
        log.borrow_mut().resps[idx].ended = true;
        return Err(SimErr(500));
    }
    let res = build_response(
        &prog.resp,
        idx,
        &log,
        &peer,
        if echo { payload.take() } else { None },
    );
    drop(payload);
    Ok(res)
}

// ------------------------------------------------------------------------------------------
// Scenario
// ------------------------------------------------------------------------------------------

pub struct Scenario {
    pub cfg: SrvCfg,
    pub progs: Vec<HandlerProg>,
    pub input: Vec<u8>,
    pub peer_ops: Vec<PeerOp>,
    pub w_ops: Vec<WOp>,
    /// virtual deadline for the whole scenario
    pub deadline_ms: u64,
    /// head length per request index (for in-flight accounting); may be empty
    pub head_lens: Vec<usize>,
    pub keep_taken_log: bool,
    /// request methods (HEAD or not) for closed-loop `WaitResps` steps of the peer
    pub is_head: Vec<bool>,
    /// closed-loop adversarial write side
    pub wsched: Option<simnet::WSched>,
    /// keep the request-body bytes the handlers saw (off for volume tests)
    pub capture_bodies: bool,
    /// wire bytes per request-body byte (num, den) for in-flight accounting of chunked bodies
    pub body_scale: (u64, u64),
    /// the socket's `poll_shutdown` never completes
    pub shutdown_blocks: bool,
}

impl Scenario {
    pub fn new(cfg: SrvCfg, progs: Vec<HandlerProg>, input: Vec<u8>, peer_ops: Vec<PeerOp>) -> Self {
        Scenario {
            cfg,
            progs,
            input,
            peer_ops,
            w_ops: vec![],
            deadline_ms: 3_600_000,
            head_lens: vec![],
            keep_taken_log: false,
            is_head: vec![],
            wsched: None,
            capture_bodies: true,
            body_scale: (1, 1),
            shutdown_blocks: false,
        }
    }
}

pub fn run(sc: Scenario) -> Outcome {
    util::install_quiet_panic_hook();
    let rt = tokio::runtime::Builder::new_current_thread()
        .enable_time()
        .start_paused(true)
        .build()
        .expect("runtime");
    let local = tokio::task::LocalSet::new();
    let debug_input = if std::env::var_os("VP_DEBUG").is_some() {
        Some((sc.input.clone(), sc.peer_ops.clone(), sc.w_ops.clone()))
    } else {
        None
    };
    let mark = crate::alloc::mark();
    let mut out = local.block_on(&rt, run_inner(sc));
    out.alloc_peak = crate::alloc::peak_since(mark);
    drop(local);
    drop(rt);
    if let Some((input, pops, wops)) = debug_input {
        eprintln!("---- scenario ----");
        eprintln!("input ({} bytes): {}", input.len(), util::show_bytes(&input, 1500));
        eprintln!("peer ops: {:?}", &pops[..pops.len().min(40)]);
        eprintln!("write ops: {:?}", &wops[..wops.len().min(40)]);
        eprintln!("end: {:?} at {} ms; shutdown_at={:?} dropped_at={:?} taken={} eof_seen={}", out.end, out.end_at, out.shutdown_at, out.dropped_at, out.taken, out.eof_seen);
        for r in &out.reqs {
            eprintln!(
                "req {}: {} {} v1.{} body_len={} end={:?} t_dispatch={} t_return={:?}",
                r.idx, r.method, r.target, r.version, r.body_len, r.end, r.t_dispatch, r.t_return
            );
        }
        for r in &out.resps {
            eprintln!("resp {}: {:?}", r.idx, r);
        }
        eprintln!("out ({} bytes): {}", out.out.len(), util::show_bytes(&out.out, 3000));
        eprintln!("out_log: {:?}", &out.out_log[..out.out_log.len().min(30)]);
        eprintln!("taken_log: {:?}", &out.taken_log[..out.taken_log.len().min(60)]);
        eprintln!("max_inflight={} marks={:?} alloc_peak={}", out.max_inflight, &out.inflight_marks[..out.inflight_marks.len().min(5)], out.alloc_peak);
    }
    out
}

async fn run_inner(sc: Scenario) -> Outcome {
    let Scenario {
        cfg,
        progs,
        input,
        peer_ops,
        w_ops,
        deadline_ms,
        head_lens,
        keep_taken_log,
        is_head,
        wsched,
        capture_bodies,
        body_scale,
        shutdown_blocks,
    } = sc;
    let (io, peer) = simnet::pair();
    peer.0.borrow_mut().keep_taken_log = keep_taken_log;
    peer.0.borrow_mut().shutdown_blocks = shutdown_blocks;
    peer.0.borrow_mut().body_scale = (body_scale.0.max(1), body_scale.1.max(1));
    let log = Rc::new(RefCell::new(Log {
        head_lens,
        no_capture: !capture_bodies,
        ..Default::default()
    }));
    let progs = Rc::new(progs);
    let input_len = input.len();

    let (sig_tx, sig_rx) = tokio::sync::watch::channel(false);

    let hlog = log.clone();
    let hpeer = peer.clone();
    let hprogs = progs.clone();
    let elog = log.clone();
    let expect_delay = cfg.expect_delay_ms;
    let expect_reject = cfg.expect_reject;

    let mut builder = HttpService::<simnet::SimIo, _, _, _, _>::build()
        .keep_alive(match cfg.ka {
            KaCfg::Disabled => KeepAlive::Disabled,
            KaCfg::Os => KeepAlive::Os,
            KaCfg::Timeout(ms) => KeepAlive::Timeout(Duration::from_millis(ms as u64)),
        })
        .client_request_timeout(Duration::from_millis(cfg.req_timeout_ms as u64))
        .client_disconnect_timeout(Duration::from_millis(cfg.disc_timeout_ms as u64))
        .h1_allow_half_closed(cfg.half_closed)
        .h1_write_buffer_size(cfg.write_buf.max(1) as usize);
    if cfg.shutdown_signal_ms.is_some() || cfg.shutdown_signal_at_input.is_some() {
        let rx = sig_rx.clone();
        builder = builder.graceful_shutdown_signal(move || {
            let mut rx = rx.clone();
            async move {
                loop {
                    if *rx.borrow() {
                        return;
                    }
                    if rx.changed().await.is_err() {
                        std::future::pending::<()>().await;
                    }
                }
            }
        });
    }
    let factory = builder
        .expect(fn_service(move |req: Request| {
            let elog = elog.clone();
            async move {
                elog.borrow_mut().expect_calls += 1;
                if expect_delay > 0 {
                    tokio::time::sleep(Duration::from_millis(expect_delay as u64)).await;
                }
                if expect_reject {
                    Err(SimErr(417))
                } else {
                    Ok::<_, SimErr>(req)
                }
            }
        }))
        .finish(fn_service(move |req: Request| {
            handle(req, hprogs.clone(), hlog.clone(), hpeer.clone())
        }));
    let svc = factory.new_service(()).await.expect("service");
    if cfg.accept_delay_ms > 0 {
        tokio::time::sleep(Duration::from_millis(cfg.accept_delay_ms as u64)).await;
    }
    // the scenario clock starts at accept time
    peer.0.borrow_mut().t0 = Instant::now();

    // apply the leading non-blocking write-side ops before the connection starts
    let mut w_ops = w_ops;
    let mut lead = 0;
    for op in &w_ops {
        match op {
            WOp::Credit(n) => peer.set_credit(Some(*n)),
            WOp::AddCredit(n) => peer.add_credit(*n),
            WOp::Unlimited => peer.set_credit(None),
            WOp::MaxWrite(n) => peer.set_max_write(*n),
            _ => break,
        }
        lead += 1;
    }
    w_ops.drain(..lead);

    let mut aux_tasks = vec![];
    if let Some(w) = &wsched {
        simnet::apply_wsched(&peer, w);
        aux_tasks.push(tokio::task::spawn_local(simnet::run_drip(peer.clone(), w.clone())));
        aux_tasks.push(tokio::task::spawn_local(simnet::run_flush_unblocker(peer.clone())));
    }

    let conn = svc.call((io, Protocol::Http1, None));
    let end_at = Rc::new(RefCell::new(None::<u64>));
    let ea = end_at.clone();
    let cpeer = peer.clone();
    let conn_task = tokio::task::spawn_local(async move {
        let r = util::PollBudget::new(conn, util::SPIN_LIMIT).await;
        *ea.borrow_mut() = Some(cpeer.now_ms());
        match r {
            Ok(r) => r.map_err(|e| format!("{e}")),
            Err(spin) => Err(spin),
        }
    });
    let peer_done = Rc::new(RefCell::new(None::<u64>));
    let pd = peer_done.clone();
    let ppeer = peer.clone();
    let input = Bytes::from(input);
    let peer_task = tokio::task::spawn_local(async move {
        simnet::run_peer(ppeer.clone(), input, peer_ops, is_head).await;
        *pd.borrow_mut() = Some(ppeer.now_ms());
    });
    let wtask = tokio::task::spawn_local(simnet::run_wscript(peer.clone(), w_ops));
    let sig_tx = Rc::new(sig_tx);
    if let Some(off) = cfg.shutdown_signal_at_input {
        let tx = sig_tx.clone();
        peer.0.borrow_mut().send_hook = Some((off as usize, simnet::Hook(Box::new(move || {
            let _ = tx.send(true);
        }))));
    }
    let sig_task = cfg.shutdown_signal_ms.map(|ms| {
        tokio::task::spawn_local(async move {
            tokio::time::sleep(Duration::from_millis(ms as u64)).await;
            let _ = sig_tx.send(true);
            // keep the sender alive
            std::future::pending::<()>().await;
        })
    });

    let res = tokio::time::timeout(Duration::from_millis(deadline_ms), conn_task).await;
    let end = match res {
        Ok(Ok(Ok(()))) => ConnEnd::Ok,
        // a task spinning at one virtual instant never completes either
        Ok(Ok(Err(e))) if e.starts_with("SPIN:") => ConnEnd::Stalled,
        Ok(Ok(Err(e))) => ConnEnd::Err(e),
        Ok(Err(join_err)) => {
            if join_err.is_panic() {
                ConnEnd::Panicked(util::take_last_panic().unwrap_or_else(|| "<unknown>".into()))
            } else {
                ConnEnd::Err("cancelled".into())
            }
        }
        Err(_) => ConnEnd::Stalled,
    };
    peer_task.abort();
    wtask.abort();
    for t in aux_tasks {
        t.abort();
    }
    if let Some(t) = sig_task {
        t.abort();
    }
    // let aborted tasks and dropped bodies settle
    tokio::task::yield_now().await;
    drop(svc);

    let s = peer.0.borrow();
    let l = log.borrow();
    let end_time = end_at.borrow().unwrap_or_else(|| s.now_ms());
    let pd = *peer_done.borrow();
    Outcome {
        out: s.out.clone(),
        out_log: s.out_log.clone(),
        reqs: l.reqs.clone(),
        resps: l.resps.clone(),
        end,
        end_at: end_time,
        shutdown_at: s.shutdown_at,
        dropped_at: s.dropped_at,
        write_after_shutdown: s.write_after_shutdown,
        taken: s.taken,
        taken_log: s.taken_log.clone(),
        max_inflight: s.max_inflight,
        inflight_marks: s.inflight_marks.clone(),
        max_pulled_ahead: l.max_pulled_ahead,
        read_pending: s.read_pending,
        read_pending_with_more: s.read_pending_with_more,
        write_pending: s.write_pending,
        partial_writes: s.partial_writes,
        flush_pending: s.flush_pending,
        eof_seen: s.eof_seen_by_server,
        expect_calls: l.expect_calls,
        peer_done_at: pd,
        input_len,
        max_queued: 0,
        send_log: s.send_log.clone(),
        blocked_ms: s.blocked_ms_budget,
        write_calls: s.write_calls,
        alloc_peak: 0,
    }
}

/// Convenience: peer ops that deliver `input` whole at t=0 and then half-close.
pub fn whole_then_eof(len: usize) -> Vec<PeerOp> {
    vec![PeerOp::Send(0, len), PeerOp::Eof]
}

/// Keep a `Future` type nameable for callers that need to spawn helper tasks.
pub type LocalBoxFuture<T> = Pin<Box<dyn Future<Output = T>>>;
