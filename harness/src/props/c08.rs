//! C08 — HTTP/2 responses are complete and well described under any window schedule.
//!
//! The real `HttpService` is driven with `Protocol::Http2` over an in-memory duplex pipe by an
//! `h2` client whose flow-control windows and capacity releases are scripted by the case: initial
//! stream window 1 B .. 1 MiB, per-chunk release in steps with delays, streams that are starved
//! (never release) or reset by the client at a generated point, 1-4 concurrent streams. Handlers
//! are interpreted body programs (Bytes / stream / sized stream / custom bodies with empty chunks
//! and Pending patterns, hop-by-hop headers set by the user).

use std::{
    pin::Pin,
    rc::Rc,
    task::{Context, Poll},
    time::Duration,
};

use actix_http::{
    body::{BodySize, BodyStream, BoxBody, MessageBody, SizedStream},
    HttpService, KeepAlive, Protocol, Request, Response, StatusCode,
};
use actix_service::{fn_service, Service as _, ServiceFactory as _};
use bytes::Bytes;
use futures_core::Stream;
use proptest::prelude::*;
use serde::{Deserialize, Serialize};

use crate::{
    runner::{self, explore, Report, RunCfg, Verdict},
    streams::{self, RunEnd},
    util,
};

#[derive(Debug, Clone, Serialize, Deserialize, PartialEq, Eq, Hash)]
pub enum Kind {
    Empty,
    Bytes,
    Stream,
    /// SizedStream with the exact total
    Sized,
    /// custom MessageBody with BodySize::Stream, chunks passed through as they are (incl. empty)
    Custom,
}

#[derive(Debug, Clone, Serialize, Deserialize, PartialEq, Eq, Hash)]
pub struct StreamSpec {
    pub method: u8,
    pub status: u16,
    pub kind: Kind,
    pub chunks: Vec<u32>,
    pub pendings: Vec<u8>,
    pub seed: u16,
    /// hop-by-hop headers the handler sets: bit 0 connection, 1 keep-alive, 2 transfer-encoding,
    /// 3 upgrade, 4 proxy-connection
    pub hop: u8,
    /// handler delay before responding (ms)
    pub delay_ms: u16,
    /// timed gap (virtual ms) before every body chunk and before the end of the body: a
    /// slow-producing response (server-sent events, long poll)
    #[serde(default)]
    pub gap_ms: u16,
    /// client behaviour
    pub client: Client,
}

#[derive(Debug, Clone, Serialize, Deserialize, PartialEq, Eq, Hash)]
pub enum Client {
    /// release received capacity at once
    Eager,
    /// release in steps of `step` bytes with `delay_ms` between steps
    Steps { step: u32, delay_ms: u16 },
    /// never release capacity (the stream starves once its window is used up)
    Starve,
    /// reset the stream after `after` body bytes
    Reset { after: u32 },
}

#[derive(Debug, Clone, Serialize, Deserialize)]
pub struct Case {
    pub window: u32,
    pub conn_window: u32,
    pub streams: Vec<StreamSpec>,
}

const METHODS: [&str; 3] = ["GET", "HEAD", "POST"];

struct ProgBody {
    chunks: Vec<Bytes>,
    pendings: Vec<u8>,
    next: usize,
    pending_left: u8,
    gap_ms: u16,
    sleep: Option<Pin<Box<tokio::time::Sleep>>>,
    slept_for: usize,
    ended: bool,
}

impl ProgBody {
    fn new(chunks: Vec<Bytes>, pendings: Vec<u8>) -> Self {
        let pl = pendings.first().copied().unwrap_or(0);
        ProgBody { chunks, pendings, next: 0, pending_left: pl, gap_ms: 0, sleep: None, slept_for: usize::MAX, ended: false }
    }
    fn with_gap(mut self, gap_ms: u16) -> Self {
        self.gap_ms = gap_ms;
        self
    }
    fn poll_chunk(&mut self, cx: &mut Context<'_>) -> Poll<Option<Result<Bytes, std::io::Error>>> {
        if self.gap_ms > 0 && self.slept_for != self.next {
            let gap = self.gap_ms;
            let sl = self.sleep.get_or_insert_with(|| Box::pin(tokio::time::sleep(Duration::from_millis(gap as u64))));
            if std::future::Future::poll(sl.as_mut(), cx).is_pending() {
                return Poll::Pending;
            }
            self.sleep = None;
            self.slept_for = self.next;
        }
        if self.pending_left > 0 {
            self.pending_left -= 1;
            cx.waker().wake_by_ref();
            return Poll::Pending;
        }
        if self.next >= self.chunks.len() {
            // strict body: must not be polled again once it has returned `Ready(None)`
            if self.ended {
                panic!("response body polled again after it had returned Ready(None)");
            }
            self.ended = true;
            return Poll::Ready(None);
        }
        let b = self.chunks[self.next].clone();
        self.next += 1;
        self.pending_left = self.pendings.get(self.next % self.pendings.len().max(1)).copied().unwrap_or(0);
        Poll::Ready(Some(Ok(b)))
    }
}

impl Stream for ProgBody {
    type Item = Result<Bytes, std::io::Error>;
    fn poll_next(mut self: Pin<&mut Self>, cx: &mut Context<'_>) -> Poll<Option<Self::Item>> {
        self.poll_chunk(cx)
    }
}

struct CustomBody(ProgBody);
impl MessageBody for CustomBody {
    type Error = std::io::Error;
    fn size(&self) -> BodySize {
        BodySize::Stream
    }
    fn poll_next(mut self: Pin<&mut Self>, cx: &mut Context<'_>) -> Poll<Option<Result<Bytes, Self::Error>>> {
        self.0.poll_chunk(cx)
    }
}

fn body_parts(s: &StreamSpec) -> Vec<Bytes> {
    let mut off = 0u64;
    s.chunks
        .iter()
        .map(|n| {
            let v: Vec<u8> = (0..*n as u64).map(|i| util::data_byte(s.seed as u64, off + i)).collect();
            off += *n as u64;
            Bytes::from(v)
        })
        .collect()
}

fn bodiless(status: u16) -> bool {
    matches!(status, 204 | 304) || status / 100 == 1
}

#[derive(Debug)]
struct StreamOut {
    status: Option<u16>,
    headers: Vec<(String, String)>,
    data: Vec<u8>,
    ended: bool,
    error: Option<String>,
    reset_by_client: bool,
    /// virtual ms since the start of the case at which the stream task finished
    end_ms: u64,
}

pub fn run_case(cfg: &RunCfg, case: &Case) -> Verdict {
    let kf_empty = !cfg.strict && cfg.kf.active("C08", "h2-empty-chunk-stalls-stream");
    let kf_304 = !cfg.strict && cfg.kf.active("C08", "h2-304-with-body-sends-data");
    for s in &case.streams {
        let has_empty = s.chunks.iter().any(|c| *c == 0) && matches!(s.kind, Kind::Custom) && METHODS[s.method as usize % 3] != "HEAD" && !bodiless(s.status);
        if has_empty && kf_empty {
            return Verdict::excluded("h2-empty-chunk-stalls-stream");
        }
        if s.status == 304 && !matches!(s.kind, Kind::Empty) && kf_304 {
            return Verdict::excluded("h2-304-with-body-sends-data");
        }
    }
    let specs = Rc::new(case.streams.clone());
    let specs2 = specs.clone();
    let window = case.window;
    let conn_window = case.conn_window;
    let n = case.streams.len();
    // the delays the case itself asks for (handler delays, body gaps, stepwise capacity release)
    // come on top of the virtual minute every non-starved stream gets
    let own_delays_ms: u64 = case
        .streams
        .iter()
        .map(|s| {
            let bytes: u64 = s.chunks.iter().map(|c| *c as u64).sum();
            let release = match s.client {
                Client::Steps { step, delay_ms } => (bytes / step.max(1) as u64 + s.chunks.len() as u64 + 1) * delay_ms as u64,
                _ => 0,
            };
            s.delay_ms as u64 + (s.chunks.len() as u64 + 1) * s.gap_ms as u64 + release
        })
        .sum();
    let fut = async move {
        let specs = specs2;
        let hspecs = specs.clone();
        let factory = HttpService::<tokio::io::DuplexStream, _, _, _, _>::build().keep_alive(KeepAlive::Os).finish(fn_service(move |req: Request| {
            let specs = hspecs.clone();
            async move {
                let idx: usize = req.path().trim_start_matches("/s").parse().unwrap_or(0);
                let s = specs[idx % specs.len()].clone();
                if s.delay_ms > 0 {
                    tokio::time::sleep(Duration::from_millis(s.delay_ms as u64)).await;
                }
                let mut b = Response::build(StatusCode::from_u16(s.status).unwrap_or(StatusCode::OK));
                if s.hop & 1 != 0 {
                    b.insert_header(("connection", "close"));
                }
                if s.hop & 2 != 0 {
                    b.insert_header(("keep-alive", "timeout=5"));
                }
                if s.hop & 4 != 0 {
                    b.insert_header(("transfer-encoding", "chunked"));
                }
                if s.hop & 8 != 0 {
                    b.insert_header(("upgrade", "websocket"));
                }
                if s.hop & 16 != 0 {
                    b.insert_header(("proxy-connection", "keep-alive"));
                }
                b.insert_header(("x-stream", idx.to_string()));
                let parts = body_parts(&s);
                let total: usize = parts.iter().map(|p| p.len()).sum();
                if s.hop & 32 != 0 {
                    // a handler relaying an upstream header: the length of the body it attaches
                    b.insert_header(("content-length", total.to_string()));
                }
                let res = b.finish().map_into_boxed_body();
                let body: BoxBody = match s.kind {
                    Kind::Empty => BoxBody::new(()),
                    Kind::Bytes => BoxBody::new(Bytes::from(parts.concat())),
                    Kind::Stream => BoxBody::new(BodyStream::new(ProgBody::new(parts, s.pendings.clone()).with_gap(s.gap_ms))),
                    Kind::Sized => BoxBody::new(SizedStream::new(total as u64, ProgBody::new(parts, s.pendings.clone()).with_gap(s.gap_ms))),
                    Kind::Custom => BoxBody::new(CustomBody(ProgBody::new(parts, s.pendings.clone()).with_gap(s.gap_ms))),
                };
                Ok::<_, std::convert::Infallible>(res.set_body(body))
            }
        }));
        let svc = factory.new_service(()).await.expect("service");
        let (client_io, server_io) = tokio::io::duplex(1 << 16);
        let conn = svc.call((server_io, Protocol::Http2, None));
        let server = tokio::task::spawn_local(async move {
            // (a server task spinning at one virtual instant is ended; its streams then never finish)
            let _ = util::PollBudget::new(conn, util::SPIN_LIMIT).await;
        });
        let (send_req, connection) = match h2::client::Builder::new()
            .initial_window_size(window)
            .initial_connection_window_size(conn_window)
            .handshake::<_, Bytes>(client_io)
            .await
        {
            Ok(x) => x,
            Err(e) => return Err(format!("client handshake failed: {e}")),
        };
        let driver = tokio::task::spawn_local(async move {
            let _ = connection.await;
        });
        let mut tasks = vec![];
        let t_start = tokio::time::Instant::now();
        for (i, s) in specs.iter().enumerate() {
            let mut sr = match send_req.clone().ready().await {
                Ok(s) => s,
                Err(e) => return Err(format!("client not ready: {e}")),
            };
            let req = http::Request::builder().method(METHODS[s.method as usize % 3]).uri(format!("http://localhost/s{i}")).body(()).unwrap();
            let (resp_fut, _send) = match sr.send_request(req, true) {
                Ok(x) => x,
                Err(e) => return Err(format!("send_request failed: {e}")),
            };
            let client = s.client.clone();
            tasks.push(tokio::task::spawn_local(async move {
                let mut out = StreamOut { status: None, headers: vec![], data: vec![], ended: false, error: None, reset_by_client: false, end_ms: 0 };
                let resp = match resp_fut.await {
                    Ok(r) => r,
                    Err(e) => {
                        out.error = Some(format!("response error: {e}"));
                        out.end_ms = t_start.elapsed().as_millis() as u64;
                        return out;
                    }
                };
                out.status = Some(resp.status().as_u16());
                out.headers = resp.headers().iter().map(|(k, v)| (k.as_str().to_string(), String::from_utf8_lossy(v.as_bytes()).into_owned())).collect();
                let mut body = resp.into_body();
                loop {
                    match body.data().await {
                        None => {
                            out.ended = true;
                            break;
                        }
                        Some(Err(e)) => {
                            out.error = Some(format!("data error: {e}"));
                            break;
                        }
                        Some(Ok(chunk)) => {
                            out.data.extend_from_slice(&chunk);
                            match &client {
                                Client::Eager => {
                                    let _ = body.flow_control().release_capacity(chunk.len());
                                }
                                Client::Steps { step, delay_ms } => {
                                    let mut left = chunk.len();
                                    while left > 0 {
                                        let k = left.min((*step as usize).max(1));
                                        if *delay_ms > 0 {
                                            tokio::time::sleep(Duration::from_millis(*delay_ms as u64)).await;
                                        } else {
                                            tokio::task::yield_now().await;
                                        }
                                        let _ = body.flow_control().release_capacity(k);
                                        left -= k;
                                    }
                                }
                                Client::Starve => {}
                                Client::Reset { after } => {
                                    let _ = body.flow_control().release_capacity(chunk.len());
                                    if out.data.len() >= *after as usize {
                                        out.reset_by_client = true;
                                        drop(body);
                                        out.end_ms = t_start.elapsed().as_millis() as u64;
                                        return out;
                                    }
                                }
                            }
                        }
                    }
                }
                out.end_ms = t_start.elapsed().as_millis() as u64;
                out
            }));
        }
        drop(send_req);
        let mut outs = vec![];
        for (i, t) in tasks.into_iter().enumerate() {
            // a starved stream is not expected to finish; give everything else a virtual minute
            match tokio::time::timeout(Duration::from_millis(60_000 + own_delays_ms), t).await {
                Ok(Ok(o)) => outs.push(Some(o)),
                Ok(Err(e)) => return Err(format!("stream task {i} failed: {e}")),
                Err(_) => outs.push(None),
            }
        }
        driver.abort();
        server.abort();
        Ok(outs)
    };
    let outs = match streams::run_local(3_600_000, fut) {
        RunEnd::Done(Ok(o)) => o,
        RunEnd::Done(Err(e)) => return Verdict::failed(e),
        RunEnd::Hang => return Verdict::failed("the whole connection hung"),
        RunEnd::Panicked(p) => return Verdict::failed(format!("panic: {p}")),
    };
    let multi_frame = case.streams.iter().any(|s| s.chunks.iter().any(|c| *c > case.window));
    let idle_heavy = case.streams.iter().filter(|s| s.gap_ms >= 500 && !matches!(s.kind, Kind::Empty | Kind::Bytes)).count() >= 4;
    let v = Verdict::ok()
        .nt(n >= 2 && (multi_frame || case.window <= 100 || idle_heavy))
        .class_if(idle_heavy, "four-or-more-idle-response-streams")
        .class_if(case.conn_window <= 65_535, "default-connection-window")
        .class_if(case.streams.iter().any(|s| s.hop & 32 != 0), "handler-set-content-length")
        .class_if(multi_frame, "chunk-larger-than-window")
        .class_if(case.window <= 100, "tiny-window")
        .class_if(case.streams.iter().any(|s| matches!(s.client, Client::Starve)), "starved-stream")
        .class_if(case.streams.iter().any(|s| matches!(s.client, Client::Reset { .. })), "client-reset")
        .class_if(case.streams.iter().any(|s| s.chunks.iter().any(|c| *c == 0)), "empty-chunk")
        .class_if(n >= 2, "concurrent-streams");
    // timeliness independence: when every client keeps granting window without delay, released
    // capacity returns in zero virtual time, so a stream ends as soon as its own handler and body
    // program allow - whatever the other streams' programs are doing
    let prompt_clients = case.streams.iter().all(|s| matches!(s.client, Client::Eager | Client::Reset { .. }) || matches!(s.client, Client::Steps { delay_ms: 0, .. }));
    if prompt_clients {
        for (i, (s, o)) in case.streams.iter().zip(outs.iter()).enumerate() {
            let Some(o) = o else { continue };
            let streams_body = !matches!(s.kind, Kind::Empty | Kind::Bytes);
            let own = s.delay_ms as u64 + if streams_body { (s.chunks.len() as u64 + 1) * s.gap_ms as u64 } else { 0 };
            if o.end_ms > own + 50 {
                return v.fail_with(format!(
                    "stream {i} of {n} finished at {} ms although its own handler and body program take {own} ms and every client grants window at once: it waited for another stream (stream window {}, connection window {}, other streams' gaps {:?})",
                    o.end_ms,
                    case.window,
                    case.conn_window,
                    case.streams.iter().map(|x| x.gap_ms).collect::<Vec<_>>()
                ));
            }
        }
    }
    for (i, (s, o)) in case.streams.iter().zip(outs.iter()).enumerate() {
        let want: Vec<u8> = body_parts(s).concat();
        let head = METHODS[s.method as usize % 3] == "HEAD";
        let no_body = head || bodiless(s.status) || matches!(s.kind, Kind::Empty);
        let ctx = || format!("[stream {i} of {n}: {} status {} {:?} chunks {:?} client {:?}; stream window {} connection window {}]", METHODS[s.method as usize % 3], s.status, s.kind, &s.chunks[..s.chunks.len().min(8)], s.client, case.window, case.conn_window);
        let Some(o) = o else {
            // not finished within a virtual minute: only acceptable for a stream the client starves
            // (and whose body does not fit the window)
            if matches!(s.client, Client::Starve) && !no_body && want.len() > case.window as usize {
                continue;
            }
            return v.fail_with(format!("the stream never ended although the client kept granting window {}", ctx()));
        };
        if o.reset_by_client {
            // what arrived before the reset must be a prefix of the body
            if !want.starts_with(&o.data) {
                return v.fail_with(format!("bytes received before the client's reset are not a prefix of the body {}", ctx()));
            }
            continue;
        }
        if let Some(e) = &o.error {
            return v.fail_with(format!("stream failed: {e} {}", ctx()));
        }
        if o.status != Some(s.status) {
            return v.fail_with(format!("status {:?} {}", o.status, ctx()));
        }
        if !o.ended {
            return v.fail_with(format!("no END_STREAM {}", ctx()));
        }
        for (k, _) in &o.headers {
            if matches!(k.as_str(), "connection" | "keep-alive" | "transfer-encoding" | "upgrade" | "proxy-connection") {
                return v.fail_with(format!("connection-specific header {k:?} sent on HTTP/2 {}", ctx()));
            }
        }
        if o.headers.iter().find(|(k, _)| k == "x-stream").map(|(_, v)| v.as_str()) != Some(i.to_string().as_str()) {
            return v.fail_with(format!("response of another stream delivered here {}", ctx()));
        }
        let cl: Option<u64> = o.headers.iter().find(|(k, _)| k == "content-length").and_then(|(_, v)| v.parse().ok());
        if no_body {
            if !o.data.is_empty() {
                return v.fail_with(format!("{} DATA bytes on a response that has no body {}", o.data.len(), ctx()));
            }
            // for HEAD a content-length describes the body a GET would have had
            if let Some(c) = cl {
                let allowed = if head && !bodiless(s.status) { want.len() as u64 } else { 0 };
                if c != allowed && !(head && matches!(s.kind, Kind::Empty) && c == 0) && !(s.status == 304) {
                    return v.fail_with(format!("content-length {c} on a bodiless response (expected none or {allowed}) {}", ctx()));
                }
            }
            continue;
        }
        if o.data != want {
            return v.fail_with(format!(
                "received {} body bytes, the handler produced {} (first difference at {:?}) {}",
                o.data.len(),
                want.len(),
                o.data.iter().zip(want.iter()).position(|(a, b)| a != b),
                ctx()
            ));
        }
        if let Some(c) = cl {
            if c != want.len() as u64 {
                return v.fail_with(format!("content-length {c} but {} body bytes {}", want.len(), ctx()));
            }
        }
    }
    v
}

fn stream_spec() -> impl Strategy<Value = StreamSpec> {
    (
        prop_oneof![5 => Just(0u8), 2 => Just(1u8), 2 => Just(2u8)],
        prop_oneof![8 => Just(200u16), 1 => Just(204u16), 1 => Just(304u16), 1 => Just(404u16), 1 => Just(206u16)],
        prop_oneof![1 => Just(Kind::Empty), 3 => Just(Kind::Bytes), 3 => Just(Kind::Stream), 2 => Just(Kind::Sized), 2 => Just(Kind::Custom)],
        proptest::collection::vec(prop_oneof![1 => Just(0u32), 4 => 1u32..200, 3 => 200u32..20_000, 1 => 20_000u32..120_000], 0..6),
        proptest::collection::vec(0u8..3, 1..4),
        any::<u16>(),
        prop_oneof![4 => Just(0u8), 2 => 0u8..64],
        prop_oneof![4 => Just(0u16), 1 => 1u16..50],
        prop_oneof![6 => Just(0u16), 1 => 1u16..30, 1 => 100u16..3000],
        prop_oneof![
            4 => Just(Client::Eager),
            3 => (prop_oneof![Just(1u32), 1u32..100, 100u32..20_000], prop_oneof![2 => Just(0u16), 1 => 1u16..20]).prop_map(|(step, delay_ms)| Client::Steps { step, delay_ms }),
            1 => Just(Client::Starve),
            1 => (0u32..5000).prop_map(|after| Client::Reset { after }),
        ],
    )
        .prop_map(|(method, status, kind, mut chunks, pendings, seed, hop, delay_ms, gap_ms, client)| {
            // empty chunks only make sense for streaming kinds; a Bytes body is what it is
            if matches!(kind, Kind::Bytes | Kind::Sized | Kind::Stream) {
                // BodyStream / SizedStream filter empty chunks themselves; keep them in to check that
            }
            if matches!(kind, Kind::Empty) {
                chunks.clear();
            }
            StreamSpec { method, status, kind, chunks, pendings, seed, hop, delay_ms, gap_ms, client }
        })
}

fn case_strategy() -> impl Strategy<Value = Case> {
    (
        prop_oneof![Just(1u32), Just(100u32), Just(16_384u32), Just(65_535u32), Just(1u32 << 20), 2u32..70_000],
        prop_oneof![Just(1u32 << 20), Just(4u32 << 20)],
        proptest::collection::vec(stream_spec(), 1..5),
    )
        .prop_map(|(window, conn_window, mut streams)| {
            // a 1-byte step release of a large body is very slow and adds nothing: cap the volume
            for s in streams.iter_mut() {
                let total: u64 = s.chunks.iter().map(|c| *c as u64).sum();
                if window <= 100 || matches!(s.client, Client::Steps { step, .. } if step < 100) {
                    if total > 3000 {
                        for c in s.chunks.iter_mut() {
                            *c %= 700;
                        }
                    }
                }
            }
            // the connection window must never be the bottleneck (a starved stream could otherwise
            // legitimately block the others): it is at least 1 MiB and bodies are < 720 KB in total
            Case { window, conn_window, streams }
        })
}

/// 4-9 response streams whose bodies are idle for long stretches next to 1-2 streams that could
/// finish at once, on a connection window as small as the protocol default.
fn idle_case_strategy() -> impl Strategy<Value = Case> {
    (
        prop_oneof![Just(65_535u32), Just(16_384u32), Just(1u32 << 20)],
        prop_oneof![3 => Just(65_535u32), 1 => Just(1u32 << 20)],
        proptest::collection::vec(stream_spec(), 5..11),
        1usize..3,
    )
        .prop_map(|(window, conn_window, mut streams, fast)| {
            let n = streams.len();
            for (i, s) in streams.iter_mut().enumerate() {
                s.client = Client::Eager;
                s.delay_ms = 0;
                if i + fast >= n {
                    // fast streams come last: a short body that is ready at once
                    s.gap_ms = 0;
                    s.method = 0;
                    s.status = 200;
                    s.kind = Kind::Bytes;
                    s.chunks = vec![1 + (s.seed as u32 % 200)];
                } else {
                    s.gap_ms = 500 + s.seed % 3000;
                    s.method = 0;
                    s.status = 200;
                    if matches!(s.kind, Kind::Empty | Kind::Bytes) {
                        s.kind = Kind::Stream;
                    }
                    s.chunks.truncate(3);
                    if s.chunks.is_empty() {
                        s.chunks.push(10);
                    }
                    for c in s.chunks.iter_mut() {
                        *c = (*c % 2000).max(1);
                    }
                }
            }
            Case { window, conn_window, streams }
        })
}

pub fn run(cfg: &RunCfg) -> Report {
    let mut rep = Report::new("C08");
    rep.rule = "1-4 concurrent streams (GET/HEAD/POST) on one HTTP/2 connection served by the real HttpService over an in-memory duplex pipe; per stream: status 200/204/206/304/404, body Empty / Bytes / BodyStream / SizedStream / custom MessageBody with chunks of 0..120000 bytes (empty chunks, chunks larger than the window) and self-waking Pending patterns, user-set hop-by-hop headers (connection, keep-alive, transfer-encoding, upgrade, proxy-connection), handler delay; client: initial stream window 1/100/16384/65535/1 MiB/random, connection window 1-4 MiB, capacity released eagerly / in steps of 1..20000 bytes with 0-20 ms delays / never (starved stream) / stream reset after k bytes; \
                non-trivial = at least 2 streams and (a body chunk larger than the stream window, so that the capacity loop iterates, or a window <= 100 bytes); distinct by hash of the case"
        .into();
    rep.assumptions = vec![
        "h2 may coalesce or split frames: only byte sequences are compared".into(),
        "the connection window (>= 1 MiB) is never the bottleneck, so a starved or reset stream has no protocol-level reason to hold up another".into(),
        "a stream the client starves is allowed not to end; every other stream must end within a virtual minute".into(),
        "for HEAD a content-length equal to the length the GET body would have is accepted; for 304 any content-length is accepted".into(),
    ];
    runner::replay_pinned(&mut rep, cfg, &replay);
    runner::replay_regress(&mut rep, cfg, &replay);
    explore(&mut rep, cfg, "streams", cfg.cases(100_000, 2_000_000), case_strategy, |c| run_case(cfg, c));
    explore(&mut rep, cfg, "idle-streams", cfg.cases(6_000, 120_000), idle_case_strategy, |c| run_case(cfg, c).class("idle-streams"));
    rep
}

pub fn replay(cfg: &RunCfg, _phase: &str, case: &serde_json::Value) -> Result<Verdict, String> {
    let c: Case = runner::from_json(case)?;
    Ok(run_case(cfg, &c))
}
