//! C16 — static files stay inside the root; ranges and conditionals are exact.
//!
//! A temp tree (under /verif/target/tmp, one per worker thread, removed afterwards) holds a served
//! root with nested directories, hidden files and files of length 0 / 1 / 10 / 70 000 whose
//! contents encode their own relative path, plus a canary file and directory *next to* the root.
//! `Files::new("/static", root)` with generated options is served through `actix_web::test`.
//! Paths are generated from tokens (real names, `.`, `..`, `%2e`, `%2f`, `%5c`, `%00`, `%25`,
//! double encoding, UTF-8, empty segments); Range and conditional headers from grammars built on
//! the file's real ETag / Last-Modified.

use std::{cell::RefCell, path::PathBuf};

use actix_files::Files;
use actix_web::{http::StatusCode, test, App};
use proptest::prelude::*;
use serde::{Deserialize, Serialize};

use crate::{
    runner::{self, explore, Report, RunCfg, Verdict},
    streams::{self, RunEnd},
    util,
};

const FILES: [(&str, usize); 9] = [
    ("a.txt", 10),
    ("empty", 0),
    ("one", 1),
    ("big.bin", 70_000),
    ("index.html", 40),
    ("dir/inner.txt", 25),
    ("dir/index.html", 33),
    ("dir/.hidden", 12),
    (".dot", 7),
];
const CANARY: &str = "CANARY-OUTSIDE-THE-ROOT";

fn content_of(rel: &str, len: usize) -> Vec<u8> {
    let tag = format!("<{rel}>");
    tag.as_bytes().iter().cycle().take(len).copied().collect()
}

struct Tree {
    base: PathBuf,
    root: PathBuf,
}

impl Drop for Tree {
    fn drop(&mut self) {
        let _ = std::fs::remove_dir_all(&self.base);
    }
}

thread_local! {
    static TREE: RefCell<Option<Tree>> = const { RefCell::new(None) };
}

fn tree_root(cfg: &RunCfg) -> PathBuf {
    TREE.with(|t| {
        let mut t = t.borrow_mut();
        if t.is_none() {
            let base = cfg.root.join("target").join("tmp").join(format!("c16-{}-{:?}", std::process::id(), std::thread::current().id()).replace(['(', ')'], ""));
            let _ = std::fs::remove_dir_all(&base);
            let root = base.join("root");
            std::fs::create_dir_all(root.join("dir")).expect("mkdir");
            std::fs::create_dir_all(base.join("canarydir")).expect("mkdir");
            for (rel, len) in FILES {
                std::fs::write(root.join(rel), content_of(rel, len)).expect("write");
            }
            std::fs::write(base.join("canary.txt"), CANARY.repeat(10)).expect("write");
            std::fs::write(base.join("canarydir").join("secret.txt"), CANARY.repeat(10)).expect("write");
            // a sibling whose name starts like the root's
            std::fs::create_dir_all(base.join("rootx")).expect("mkdir");
            std::fs::write(base.join("rootx").join("a.txt"), CANARY.repeat(3)).expect("write");
            *t = Some(Tree { base, root });
        }
        t.as_ref().unwrap().root.clone()
    })
}

#[derive(Debug, Clone, Serialize, Deserialize, PartialEq, Eq, Hash)]
pub enum RangeSpec {
    None,
    /// (first, last) relative to the file length: encoded as offsets, resolved per file
    FirstLast(i64, i64),
    From(i64),
    Suffix(u64),
    Multi(Vec<(i64, i64)>),
    Raw(String),
}

#[derive(Debug, Clone, Copy, Serialize, Deserialize, PartialEq, Eq, Hash)]
pub enum Cond {
    Absent,
    /// the file's own validator
    Own,
    Other,
    Star,
    /// date = mtime + delta seconds
    Date(i32),
    Garbage,
}

#[derive(Debug, Clone, Serialize, Deserialize)]
pub struct Case {
    pub tokens: Vec<u8>,
    pub seps: Vec<u8>,
    pub listing: bool,
    pub index: bool,
    pub hidden: bool,
    pub redirect: bool,
    pub range: RangeSpec,
    pub if_match: Cond,
    pub if_none_match: Cond,
    pub if_modified_since: Cond,
    pub if_unmodified_since: Cond,
    /// explicit tail (replay form)
    pub tail: Option<String>,
    /// 0 = GET, 1 = HEAD (same resource, same oracle), 2 = POST, 3 = DELETE (must be refused)
    #[serde(default)]
    pub method: u8,
}

const TOKENS: [&str; 30] = [
    "a.txt", "empty", "one", "big.bin", "index.html", "dir", "inner.txt", ".hidden", ".dot", ".", "..", "%2e", "%2E%2E", "%2e%2e", "..%2f", "%2f", "%2F..", "%5c", "%5c..", "%00", "%25", "%252e%252e",
    "%C3%BC", "canary.txt", "canarydir", "secret.txt", "rootx", "nonexistent", "", "root",
];

fn method_of(m: u8) -> actix_web::http::Method {
    match m {
        1 => actix_web::http::Method::HEAD,
        2 => actix_web::http::Method::POST,
        3 => actix_web::http::Method::DELETE,
        _ => actix_web::http::Method::GET,
    }
}

fn tail_of(case: &Case) -> String {
    if let Some(t) = &case.tail {
        return t.clone();
    }
    let mut s = String::new();
    for (i, t) in case.tokens.iter().enumerate() {
        let sep = match case.seps.get(i).copied().unwrap_or(0) % 6 {
            0 | 1 | 2 | 3 => "/",
            4 => "//",
            _ => "",
        };
        s.push_str(sep);
        s.push_str(TOKENS[*t as usize % TOKENS.len()]);
    }
    if case.seps.last().copied().unwrap_or(0) % 5 == 0 {
        s.push('/');
    }
    s
}

/// The only file a *plain* tail (real names separated by single slashes) can denote.
fn plain_target(tail: &str, hidden_ok: bool) -> Option<(&'static str, usize)> {
    // (the tail must start with the separator that ends the mount path)
    let t = tail.strip_prefix('/')?;
    FILES.iter().copied().find(|(rel, _)| *rel == t && (hidden_ok || !rel.split('/').any(|s| s.starts_with('.'))))
}

/// reference semantics of a Range header for a representation of length `len`:
/// Err(()) = syntactically invalid; Ok(list of satisfiable (start, end) ranges, in order)
fn ref_ranges(header: &str, len: u64) -> Result<Vec<(u64, u64)>, ()> {
    ref_ranges2(header, len).map(|r| r.0)
}

/// as above, plus whether the set contained an inverted (invalid) spec
fn ref_ranges2(header: &str, len: u64) -> Result<(Vec<(u64, u64)>, bool), ()> {
    let mut inverted = false;
    let rest = header.strip_prefix("bytes=").ok_or(())?;
    let mut out = vec![];
    let mut any = false;
    for part in rest.split(',') {
        let part = part.trim();
        if part.is_empty() {
            continue;
        }
        any = true;
        let (a, b) = part.split_once('-').ok_or(())?;
        let (a, b) = (a.trim(), b.trim());
        if a.is_empty() {
            let n: u64 = b.parse().map_err(|_| ())?;
            if n > 0 && len > 0 {
                out.push((len - n.min(len), len - 1));
            }
        } else {
            let s: u64 = a.parse().map_err(|_| ())?;
            if b.is_empty() {
                if s < len {
                    out.push((s, len - 1));
                }
            } else {
                let e: u64 = b.parse().map_err(|_| ())?;
                if s > e {
                    // an inverted spec is invalid; RFC 7233 lets the recipient ignore the whole
                    // header, implementations commonly skip the spec or refuse the header: all accepted
                    inverted = true;
                    continue;
                }
                if s < len {
                    out.push((s, e.min(len - 1)));
                }
            }
        }
    }
    if !any {
        return Err(());
    }
    Ok((out, inverted))
}

fn range_header(r: &RangeSpec, len: u64) -> Option<String> {
    let res = |x: i64| -> String {
        // offsets: >= 0 from the start, < 0 relative to the end (len + x)
        if x >= 0 {
            x.to_string()
        } else {
            (len as i64 + x).max(0).to_string()
        }
    };
    match r {
        RangeSpec::None => None,
        RangeSpec::FirstLast(a, b) => Some(format!("bytes={}-{}", res(*a), res(*b))),
        RangeSpec::From(a) => Some(format!("bytes={}-", res(*a))),
        RangeSpec::Suffix(n) => Some(format!("bytes=-{n}")),
        RangeSpec::Multi(v) => Some(format!("bytes={}", v.iter().map(|(a, b)| format!("{}-{}", res(*a), res(*b))).collect::<Vec<_>>().join(", "))),
        RangeSpec::Raw(s) => Some(s.clone()),
    }
}

struct Got {
    status: u16,
    headers: Vec<(String, String)>,
    body: Vec<u8>,
}

pub fn run_case(cfg: &RunCfg, case: &Case) -> Verdict {
    let root = tree_root(cfg);
    let tail = tail_of(case);
    let uri = format!("/static{tail}");
    if http::Uri::try_from(uri.as_str()).is_err() || !uri.is_ascii() {
        return Verdict::ok().class("uri-not-representable");
    }
    let target = plain_target(&tail, case.hidden);
    let flen = target.map(|t| t.1 as u64).unwrap_or(10);
    let range_hdr = range_header(&case.range, flen);
    let case2 = case.clone();
    let uri2 = uri.clone();
    let range2 = range_hdr.clone();
    let root2 = root.clone();
    let fut = async move {
        let case = case2;
        let mut files = Files::new("/static", &root2);
        if case.listing {
            files = files.show_files_listing();
        }
        if case.index {
            files = files.index_file("index.html");
        }
        if case.hidden {
            files = files.use_hidden_files();
        }
        if case.redirect {
            files = files.redirect_to_slash_directory();
        }
        let svc = test::init_service(App::new().service(files)).await;
        // plain GET first: the validators the server itself advertises
        let plain = test::call_service(&svc, test::TestRequest::with_uri(&uri2).to_request()).await;
        let etag = plain.headers().get("etag").and_then(|v| v.to_str().ok()).map(|s| s.to_string());
        let lm = plain.headers().get("last-modified").and_then(|v| v.to_str().ok()).map(|s| s.to_string());
        let plain_status = plain.status();
        let plain_body = test::read_body(plain).await;
        let mut req = test::TestRequest::with_uri(&uri2).method(method_of(case.method));
        if let Some(r) = &range2 {
            req = req.insert_header(("range", r.as_str()));
        }
        let date_of = |delta: i32| -> Option<String> {
            let base = lm.as_ref().and_then(|s| httpdate_parse(s))?;
            Some(httpdate_fmt((base as i64 + delta as i64).max(0) as u64))
        };
        let etag_val = |c: Cond| -> Option<String> {
            match c {
                Cond::Absent | Cond::Date(_) => None,
                Cond::Own => etag.clone(),
                Cond::Other => Some("\"not-the-etag\"".to_string()),
                Cond::Star => Some("*".to_string()),
                Cond::Garbage => Some("garbage, \"".to_string()),
            }
        };
        let date_val = |c: Cond| -> Option<String> {
            match c {
                Cond::Date(d) => date_of(d),
                Cond::Garbage => Some("yesterday".to_string()),
                _ => None,
            }
        };
        let mut sent: Vec<(&'static str, String)> = vec![];
        if let Some(v) = etag_val(case.if_match) {
            sent.push(("if-match", v));
        }
        if let Some(v) = etag_val(case.if_none_match) {
            sent.push(("if-none-match", v));
        }
        if let Some(v) = date_val(case.if_modified_since) {
            sent.push(("if-modified-since", v));
        }
        if let Some(v) = date_val(case.if_unmodified_since) {
            sent.push(("if-unmodified-since", v));
        }
        for (n, v) in &sent {
            req = req.insert_header((*n, v.as_str()));
        }
        let resp = test::call_service(&svc, req.to_request()).await;
        let status = resp.status().as_u16();
        let headers: Vec<(String, String)> = resp.headers().iter().map(|(k, v)| (k.as_str().to_string(), String::from_utf8_lossy(v.as_bytes()).into_owned())).collect();
        let body = test::read_body(resp).await.to_vec();
        (plain_status, plain_body.to_vec(), etag, lm, sent, Got { status, headers, body })
    };
    let (plain_status, plain_body, etag, lm, sent, got) = match streams::run_local(600_000, fut) {
        RunEnd::Done(x) => x,
        RunEnd::Hang => return Verdict::failed(format!("request for {uri} never completed")),
        RunEnd::Panicked(p) => return Verdict::failed(format!("panic while serving {uri} (Range {range_hdr:?}): {p}")),
    };
    let dotty = tail.contains("..") || tail.to_ascii_lowercase().contains("%2e") || tail.to_ascii_lowercase().contains("%2f") || tail.to_ascii_lowercase().contains("%5c") || tail.contains("%00") || tail.contains("%25");
    let range_edge = range_hdr.is_some() && (flen <= 1 || range_hdr.as_deref().is_some_and(|r| r.len() > 24));
    let v = Verdict::ok()
        .nt(dotty || range_edge)
        .class_if(dotty, "dot-segment-or-encoded-separator")
        .class_if(range_hdr.is_some(), "range-request")
        .class_if(target.is_some(), "plain-existing-file")
        .class_if(!sent.is_empty(), "conditional-headers")
        .class_if(got.status == 206, "206")
        .class_if(got.status == 416, "416")
        .class_if(got.status == 304, "304")
        .class_if(got.status == 412, "412")
        .class_if(case.method == 1, "HEAD")
        .class_if(case.method >= 2, "method-not-served");
    let mname = method_of(case.method);
    let ctx = || format!("[{mname} {uri} Range {range_hdr:?} conditionals {sent:?} options listing={} index={} hidden={} redirect={}]", case.listing, case.index, case.hidden, case.redirect);
    // ---- containment: whatever is served is a file under the root
    for (what, status, body) in [("plain", plain_status.as_u16(), &plain_body), ("conditional/range", got.status, &got.body)] {
        if util::find_sub(body, CANARY.as_bytes()).is_some() {
            return v.fail_with(format!("{what} response ({status}) contains data from outside the served root {}", ctx()));
        }
        // a directory listing names only entries that exist under the root (the page title echoes
        // the request path, so only the link targets are looked at)
        if body.starts_with(b"<html>") {
            let text = String::from_utf8_lossy(body);
            for part in text.split("href=\"").skip(1) {
                let href = part.split('"').next().unwrap_or("");
                let last = href.trim_end_matches('/').rsplit('/').next().unwrap_or("");
                let decoded = String::from_utf8_lossy(&super::c10::ref_requote(last.as_bytes(), b"").unwrap_or_else(|| last.as_bytes().to_vec())).into_owned();
                const NAMES: [&str; 10] = ["a.txt", "empty", "one", "big.bin", "index.html", "dir", "inner.txt", ".hidden", ".dot", ""];
                if !NAMES.contains(&decoded.as_str()) {
                    return v.fail_with(format!("{what} response ({status}) lists {href:?}, which is not an entry under the served root {}", ctx()));
                }
            }
        }
        if matches!(status, 500..=599) {
            return v.fail_with(format!("{what} response status {status} {}", ctx()));
        }
    }
    if plain_status == StatusCode::OK && !plain_body.starts_with(b"<html>") && !plain_body.starts_with(b"<!DOCTYPE") {
        // must be the complete content of some file under the root
        let is_file = FILES.iter().any(|(rel, len)| plain_body == content_of(rel, *len));
        if !is_file {
            return v.fail_with(format!("200 body ({} bytes: {}) is not the content of any file under the root {}", plain_body.len(), util::show_bytes(&plain_body, 60), ctx()));
        }
    }
    // ---- methods other than GET/HEAD are refused whatever the path (default guards): an error, never a file
    if case.method >= 2 {
        if !matches!(got.status, 400..=499) {
            return v.fail_with(format!("status {} for a method the file service does not serve {}", got.status, ctx()));
        }
        if FILES.iter().any(|(rel, len)| *len >= 7 && util::find_sub(&got.body, &content_of(rel, *len)[..(*len).min(16)]).is_some()) {
            return v.fail_with(format!("error response ({}) carries file content {}", got.status, ctx()));
        }
        return v;
    }
    // ---- a plain path to an existing file is served, completely
    if let Some((rel, len)) = target {
        let full = content_of(rel, len);
        if plain_status != StatusCode::OK || plain_body != full {
            return v.fail_with(format!("plain request for the existing file {rel}: status {plain_status}, {} of {len} bytes {}", plain_body.len(), ctx()));
        }
        let len = len as u64;
        // ---- conditionals (RFC 7232 order; validators are the ones the server advertised)
        let mtime = lm.as_ref().and_then(|s| httpdate_parse(s));
        let hv = |n: &str| sent.iter().find(|(k, _)| *k == n).map(|(_, v)| v.as_str());
        let im_fails = match hv("if-match") {
            None => false,
            Some("*") => false,
            Some(v) => etag.as_deref() != Some(v),
        };
        let ius_fails = match (hv("if-unmodified-since").and_then(httpdate_parse), mtime) {
            (Some(d), Some(m)) => m > d,
            _ => false,
        };
        let inm_matches = match hv("if-none-match") {
            None => None,
            Some("*") => Some(true),
            Some(v) => Some(etag.as_deref() == Some(v)),
        };
        let ims_not_modified = match (hv("if-modified-since").and_then(httpdate_parse), mtime) {
            (Some(d), Some(m)) => m <= d,
            _ => false,
        };
        let garbage = sent.iter().any(|(_, v)| v.starts_with("garbage") || v == "yesterday");
        let may_412 = im_fails || ius_fails;
        let must_412 = im_fails;
        let may_304 = inm_matches == Some(true) || (inm_matches.is_none() && ims_not_modified);
        // ---- ranges
        let ranges = range_hdr.as_deref().map(|r| ref_ranges(r, len));
        match got.status {
            412 => {
                if !may_412 && !garbage {
                    return v.fail_with(format!("412 although no precondition failed (etag {etag:?}, last-modified {lm:?}) {}", ctx()));
                }
                if !got.body.is_empty() {
                    return v.fail_with(format!("412 with a body {}", ctx()));
                }
            }
            304 => {
                if !may_304 && !garbage {
                    return v.fail_with(format!("304 although neither If-None-Match matched nor If-Modified-Since applied (etag {etag:?}, last-modified {lm:?}) {}", ctx()));
                }
                if !got.body.is_empty() {
                    return v.fail_with(format!("304 with a body {}", ctx()));
                }
            }
            416 => {
                let inverted = range_hdr.as_deref().and_then(|r| ref_ranges2(r, len).ok()).is_some_and(|r| r.1);
                match &ranges {
                    Some(Ok(list)) if !list.is_empty() && !inverted => {
                        return v.fail_with(format!("416 although {:?} is satisfiable for a file of {len} bytes {}", list, ctx()));
                    }
                    None => return v.fail_with(format!("416 without a Range header {}", ctx())),
                    _ => {}
                }
                let cr = got.headers.iter().find(|(k, _)| k == "content-range").map(|(_, v)| v.as_str());
                if cr != Some(format!("bytes */{len}").as_str()) {
                    return v.fail_with(format!("416 with Content-Range {cr:?}, expected bytes */{len} {}", ctx()));
                }
                if !got.body.is_empty() {
                    return v.fail_with(format!("416 with a body {}", ctx()));
                }
            }
            206 => {
                let Some(Ok(list)) = &ranges else {
                    return v.fail_with(format!("206 for a request without a valid Range header {}", ctx()));
                };
                let cr = got.headers.iter().find(|(k, _)| k == "content-range").map(|(_, v)| v.clone()).unwrap_or_default();
                let parsed = cr.strip_prefix("bytes ").and_then(|r| r.split_once('/')).and_then(|(se, l)| {
                    let (s, e) = se.split_once('-')?;
                    Some((s.parse::<u64>().ok()?, e.parse::<u64>().ok()?, l.parse::<u64>().ok()?))
                });
                let Some((s, e, l)) = parsed else {
                    return v.fail_with(format!("206 with malformed Content-Range {cr:?} {}", ctx()));
                };
                if !(s <= e && e < len && l == len) {
                    return v.fail_with(format!("206 with impossible Content-Range {cr:?} for a file of {len} bytes {}", ctx()));
                }
                if !list.contains(&(s, e)) {
                    return v.fail_with(format!("206 serves bytes {s}-{e}, which is none of the requested ranges {list:?} {}", ctx()));
                }
                if got.body != full[s as usize..=e as usize] {
                    return v.fail_with(format!("206 body ({} bytes) is not bytes {s}-{e} of the file {}", got.body.len(), ctx()));
                }
                let cl = got.headers.iter().find(|(k, _)| k == "content-length").and_then(|(_, v)| v.parse::<u64>().ok());
                if cl.is_some_and(|c| c != e - s + 1) {
                    return v.fail_with(format!("206 Content-Length {cl:?} for bytes {s}-{e} {}", ctx()));
                }
                if must_412 {
                    return v.fail_with(format!("If-Match does not match but the file was served (206) {}", ctx()));
                }
            }
            200 => {
                if got.body != full {
                    return v.fail_with(format!("200 body has {} of {len} bytes {}", got.body.len(), ctx()));
                }
                if must_412 {
                    return v.fail_with(format!("If-Match does not match but the file was served (200) {}", ctx()));
                }
                if may_304 && !may_412 && !garbage && inm_matches == Some(true) {
                    return v.fail_with(format!("If-None-Match matches the advertised etag but the full file was sent {}", ctx()));
                }
                if let Some(Ok(list)) = &ranges {
                    if list.len() == 1 && !sent.iter().any(|_| true) {
                        // a single satisfiable range may be ignored by a server, but this one
                        // advertises Accept-Ranges: bytes; require it to honour the range
                        return v.fail_with(format!("satisfiable single range {:?} was ignored (200 with the whole file) {}", list, ctx()));
                    }
                }
            }
            400 => {}
            other => return v.fail_with(format!("unexpected status {other} for an existing file {}", ctx())),
        }
    } else {
        // not a plain existing file: error, redirect, listing, index file or a file reached through
        // benign normalisation — all under the root (checked above); status must be sane
        if !matches!(got.status, 200 | 206 | 301 | 302 | 303 | 307 | 308 | 304 | 400 | 403 | 404 | 405 | 412 | 416) {
            return v.fail_with(format!("unexpected status {} {}", got.status, ctx()));
        }
        if got.status == 206 {
            // whatever it is, it must be an exact slice of a file under the root
            let cr = got.headers.iter().find(|(k, _)| k == "content-range").map(|(_, v)| v.clone()).unwrap_or_default();
            let ok = cr.strip_prefix("bytes ").and_then(|r| r.split_once('/')).and_then(|(se, l)| {
                let (s, e) = se.split_once('-')?;
                let (s, e, l) = (s.parse::<usize>().ok()?, e.parse::<usize>().ok()?, l.parse::<usize>().ok()?);
                Some(s <= e && e < l && FILES.iter().any(|(rel, len)| *len == l && content_of(rel, *len)[s..=e] == got.body[..]))
            });
            if ok != Some(true) {
                return v.fail_with(format!("206 with Content-Range {cr:?} and {} body bytes is not a slice of a file under the root {}", got.body.len(), ctx()));
            }
        }
    }
    v
}

// minimal IMF-fixdate handling (the harness does not use actix's date code for its oracle)
fn httpdate_parse(s: &str) -> Option<u64> {
    // "Tue, 22 Sep 2026 11:16:29 GMT"
    let p: Vec<&str> = s.split_whitespace().collect();
    if p.len() != 6 || p[5] != "GMT" {
        return None;
    }
    let day: u64 = p[1].parse().ok()?;
    let mon = ["Jan", "Feb", "Mar", "Apr", "May", "Jun", "Jul", "Aug", "Sep", "Oct", "Nov", "Dec"].iter().position(|m| *m == p[2])? as u64;
    let year: u64 = p[3].parse().ok()?;
    let t: Vec<u64> = p[4].split(':').filter_map(|x| x.parse().ok()).collect();
    if t.len() != 3 || year < 1970 {
        return None;
    }
    let leap = |y: u64| (y % 4 == 0 && y % 100 != 0) || y % 400 == 0;
    let mut days = 0u64;
    for y in 1970..year {
        days += if leap(y) { 366 } else { 365 };
    }
    let mdays = [31, if leap(year) { 29 } else { 28 }, 31, 30, 31, 30, 31, 31, 30, 31, 30, 31];
    for m in 0..mon {
        days += mdays[m as usize];
    }
    days += day - 1;
    Some(days * 86_400 + t[0] * 3600 + t[1] * 60 + t[2])
}

fn httpdate_fmt(secs: u64) -> String {
    let days = secs / 86_400;
    let rem = secs % 86_400;
    let wd = ["Thu", "Fri", "Sat", "Sun", "Mon", "Tue", "Wed"][(days % 7) as usize];
    let leap = |y: u64| (y % 4 == 0 && y % 100 != 0) || y % 400 == 0;
    let mut y = 1970;
    let mut d = days;
    loop {
        let n = if leap(y) { 366 } else { 365 };
        if d < n {
            break;
        }
        d -= n;
        y += 1;
    }
    let mdays = [31, if leap(y) { 29 } else { 28 }, 31, 30, 31, 30, 31, 31, 30, 31, 30, 31];
    let mut m = 0;
    while d >= mdays[m] {
        d -= mdays[m];
        m += 1;
    }
    format!(
        "{wd}, {:02} {} {y} {:02}:{:02}:{:02} GMT",
        d + 1,
        ["Jan", "Feb", "Mar", "Apr", "May", "Jun", "Jul", "Aug", "Sep", "Oct", "Nov", "Dec"][m],
        rem / 3600,
        (rem % 3600) / 60,
        rem % 60
    )
}

fn range_strategy() -> impl Strategy<Value = RangeSpec> {
    let off = || prop_oneof![3 => 0i64..12, 2 => -12i64..0, 1 => 60_000i64..80_000, 1 => Just(i64::MAX), 1 => Just(1i64 << 62)];
    prop_oneof![
        4 => Just(RangeSpec::None),
        4 => (off(), off()).prop_map(|(a, b)| RangeSpec::FirstLast(a, b)),
        3 => off().prop_map(RangeSpec::From),
        3 => prop_oneof![Just(0u64), 1u64..12, 60_000u64..80_000, Just(u64::MAX), Just(1u64 << 63)].prop_map(RangeSpec::Suffix),
        2 => proptest::collection::vec((off(), off()), 2..4).prop_map(RangeSpec::Multi),
        2 => proptest::sample::select(vec![
            "bytes=", "bytes=-", "bytes=a-b", "bytes=0-0,", "bytes= 0 - 4 ", "items=0-4", "bytes=18446744073709551616-", "bytes=-18446744073709551616", "bytes=0-18446744073709551615", "bytes=5-2", "bytes=0-4,garbage", "bytes=9223372036854775808-9223372036854775809", "BYTES=0-4", "bytes=0-4;q=1",
        ])
        .prop_map(|s| RangeSpec::Raw(s.to_string())),
    ]
}

fn cond_etag() -> impl Strategy<Value = Cond> {
    prop_oneof![5 => Just(Cond::Absent), 2 => Just(Cond::Own), 2 => Just(Cond::Other), 1 => Just(Cond::Star), 1 => Just(Cond::Garbage)]
}

fn cond_date() -> impl Strategy<Value = Cond> {
    prop_oneof![5 => Just(Cond::Absent), 2 => Just(Cond::Date(0)), 2 => (-100i32..100).prop_map(Cond::Date), 1 => Just(Cond::Date(-1)), 1 => Just(Cond::Date(1)), 1 => Just(Cond::Garbage)]
}

fn case_strategy(files_only: bool) -> impl Strategy<Value = Case> {
    (
        if files_only {
            // plain existing files: 0..9 index a file directly
            proptest::collection::vec(prop_oneof![Just(0u8), Just(1u8), Just(2u8), Just(3u8), Just(4u8)], 1..2).boxed()
        } else {
            proptest::collection::vec(0u8..30, 0..6).boxed()
        },
        proptest::collection::vec(if files_only { Just(1u8).boxed() } else { (0u8..30).boxed() }, 7),
        (any::<bool>(), any::<bool>(), any::<bool>(), any::<bool>()),
        range_strategy(),
        (cond_etag(), cond_etag(), cond_date(), cond_date()),
        prop_oneof![12 => Just(0u8), 4 => Just(1u8), 1 => Just(2u8), 1 => Just(3u8)],
    )
        .prop_map(move |(tokens, seps, (listing, index, hidden, redirect), range, (if_match, if_none_match, if_modified_since, if_unmodified_since), method)| Case {
            tokens,
            seps,
            listing,
            index,
            hidden,
            redirect,
            range,
            if_match,
            if_none_match,
            if_modified_since,
            if_unmodified_since,
            tail: None,
            method,
        })
}

pub fn run(cfg: &RunCfg) -> Report {
    let mut rep = Report::new("C16");
    rep.rule = "temp tree: served root with files of length 0/1/10/25/33/40/70000 whose contents encode their own relative path, a hidden file, a hidden file in a sub-directory, index files, plus a canary file, a canary directory and a look-alike sibling directory next to the root; Files::new(\"/static\", root) with show_files_listing / index_file / use_hidden_files / redirect_to_slash_directory toggled; phase paths: 0-5 tokens from real names, '.', '..', %2e, %2E%2E, ..%2f, %2f, %5c, %00, %25, %252e%252e, UTF-8, names that exist only outside the root, joined by '/', '//' or nothing; phase files: plain paths to existing files x Range grammar (first-last, from, suffix, multi, offsets relative to the file end, 2^62, 2^63, 2^64-1, 2^64, inverted, spaces, garbage) x If-Match / If-None-Match (own etag, other, *, garbage) x If-Modified-Since / If-Unmodified-Since (mtime +-0/1/100 s, garbage); both phases x method GET (2/3) / HEAD (2/9, same oracle as GET: the handler-level response is the same resource) / POST, DELETE (1/9: must be a 4xx without file content); \
                non-trivial = a path with a dot segment or an encoded separator / NUL / percent, or a range request on a file of length 0 or 1 or with a number >= 2^62; distinct by hash of the case"
        .into();
    rep.assumptions = vec![
        "containment oracle: every 200/206 body is (a slice of) the self-describing content of a file under the root, and no response contains canary bytes or names that exist only outside the root".into(),
        "reference range semantics (RFC 7233): first-last with first <= last and first < len -> [first, min(last, len-1)]; first- with first < len; -n with n > 0 and len > 0 -> last n bytes; a 206 must be exactly one of the satisfiable requested ranges; 416 only if none is satisfiable or the header is invalid, with Content-Range bytes */len; a single satisfiable range must be honoured (the server advertises Accept-Ranges)".into(),
        "conditionals use the validators the server advertised in a prior plain GET, compared at 1 s resolution: 412 only if If-Match or If-Unmodified-Since fails, required when If-Match fails; 304 only if If-None-Match matches or (absent that header) If-Modified-Since >= mtime; If-Range is not generated".into(),
    ];
    runner::replay_pinned(&mut rep, cfg, &replay);
    runner::replay_regress(&mut rep, cfg, &replay);
    explore(&mut rep, cfg, "paths", cfg.cases(12_000, 240_000), || case_strategy(false), |c| run_case(cfg, c));
    explore(&mut rep, cfg, "files", cfg.cases(12_000, 240_000), || case_strategy(true), |c| run_case(cfg, c));
    TREE.with(|t| *t.borrow_mut() = None);
    // worker threads have exited: remove what they created
    let tmp = cfg.root.join("target").join("tmp");
    if let Ok(rd) = std::fs::read_dir(&tmp) {
        for e in rd.flatten() {
            if e.file_name().to_string_lossy().starts_with(&format!("c16-{}-", std::process::id())) {
                let _ = std::fs::remove_dir_all(e.path());
            }
        }
    }
    rep
}

pub fn replay(cfg: &RunCfg, _phase: &str, case: &serde_json::Value) -> Result<Verdict, String> {
    let c: Case = runner::from_json(case)?;
    let v = run_case(cfg, &c);
    TREE.with(|t| *t.borrow_mut() = None);
    Ok(v)
}
