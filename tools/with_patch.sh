#!/bin/bash
# Apply a change to /repo's working tree, run a command, and undo the change again.
#   tools/with_patch.sh <file.diff>        -- <command ...>    apply the diff
#   tools/with_patch.sh revert:<commit>    -- <command ...>    reverse-apply a commit of /repo (un-fix)
# The working tree of /repo must be clean before; it is restored with `git checkout -- .` after.
set -u
spec="$1"; shift
[ "$1" = "--" ] && shift
if [ -n "$(git -C /repo status --porcelain --untracked-files=no)" ]; then
  echo "with_patch: /repo working tree not clean" >&2; exit 2
fi
case "$spec" in
  revert:*) c="${spec#revert:}"; git -C /repo diff "$c^" "$c" | git -C /repo apply -R || { echo "with_patch: cannot revert $c" >&2; exit 2; } ;;
  *) git -C /repo apply "$spec" || { echo "with_patch: cannot apply $spec" >&2; exit 2; } ;;
esac
"$@"; rc=$?
git -C /repo checkout -- .
exit $rc
