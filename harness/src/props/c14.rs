//! C14 — WebSocket handshake and frame codec (`actix_http::ws::{Codec, Parser, handshake, hash_key}`).
//!
//! A reference RFC 6455 frame encoder/decoder, SHA-1 and base64 are written here and share no code
//! with actix. Phases: (roundtrip) messages encoded by one role's codec decode at the other role's
//! codec to the same message under any segmentation, and the encoder's byte layout is what the
//! reference decoder expects; (segmentation) raw frame sequences, legal and illegal, decode to the
//! same frames / the same error at the same frame whatever the split — every single cut for short
//! streams (exhaustive) and random multi-cuts; (strict) every illegal class is rejected at its
//! frame; (limit) no delivered payload exceeds max_size and a frame announcing more is refused as
//! soon as its header is known, with the decode buffer staying small; (handshake) accepted iff
//! the reference predicate holds, with the RFC accept key.

use actix_http::ws::{self, CloseCode, CloseReason, Codec, Frame, Item, Message, Parser, ProtocolError};
use bytes::{Bytes, BytesMut};
use proptest::prelude::*;
use serde::{Deserialize, Serialize};
use tokio_util::codec::{Decoder as _, Encoder as _};

use crate::runner::{self, enumerate, explore, Report, RunCfg, Verdict};

// ------------------------------------------------------------------------------------------
// reference implementations
// ------------------------------------------------------------------------------------------

fn sha1(data: &[u8]) -> [u8; 20] {
    let mut h: [u32; 5] = [0x67452301, 0xEFCDAB89, 0x98BADCFE, 0x10325476, 0xC3D2E1F0];
    let mut msg = data.to_vec();
    let bit_len = (data.len() as u64) * 8;
    msg.push(0x80);
    while msg.len() % 64 != 56 {
        msg.push(0);
    }
    msg.extend_from_slice(&bit_len.to_be_bytes());
    for block in msg.chunks(64) {
        let mut w = [0u32; 80];
        for i in 0..16 {
            w[i] = u32::from_be_bytes([block[4 * i], block[4 * i + 1], block[4 * i + 2], block[4 * i + 3]]);
        }
        for i in 16..80 {
            w[i] = (w[i - 3] ^ w[i - 8] ^ w[i - 14] ^ w[i - 16]).rotate_left(1);
        }
        let (mut a, mut b, mut c, mut d, mut e) = (h[0], h[1], h[2], h[3], h[4]);
        for (i, wi) in w.iter().enumerate() {
            let (f, k) = match i {
                0..=19 => ((b & c) | (!b & d), 0x5A827999u32),
                20..=39 => (b ^ c ^ d, 0x6ED9EBA1),
                40..=59 => ((b & c) | (b & d) | (c & d), 0x8F1BBCDC),
                _ => (b ^ c ^ d, 0xCA62C1D6),
            };
            let t = a.rotate_left(5).wrapping_add(f).wrapping_add(e).wrapping_add(k).wrapping_add(*wi);
            e = d;
            d = c;
            c = b.rotate_left(30);
            b = a;
            a = t;
        }
        h[0] = h[0].wrapping_add(a);
        h[1] = h[1].wrapping_add(b);
        h[2] = h[2].wrapping_add(c);
        h[3] = h[3].wrapping_add(d);
        h[4] = h[4].wrapping_add(e);
    }
    let mut out = [0u8; 20];
    for i in 0..5 {
        out[4 * i..4 * i + 4].copy_from_slice(&h[i].to_be_bytes());
    }
    out
}

fn base64(data: &[u8]) -> String {
    const T: &[u8; 64] = b"ABCDEFGHIJKLMNOPQRSTUVWXYZabcdefghijklmnopqrstuvwxyz0123456789+/";
    let mut out = String::new();
    for c in data.chunks(3) {
        let b = [c[0], *c.get(1).unwrap_or(&0), *c.get(2).unwrap_or(&0)];
        let n = ((b[0] as u32) << 16) | ((b[1] as u32) << 8) | b[2] as u32;
        out.push(T[(n >> 18) as usize & 63] as char);
        out.push(T[(n >> 12) as usize & 63] as char);
        out.push(if c.len() > 1 { T[(n >> 6) as usize & 63] as char } else { '=' });
        out.push(if c.len() > 2 { T[n as usize & 63] as char } else { '=' });
    }
    out
}

fn ref_accept(key: &[u8]) -> String {
    let mut v = key.to_vec();
    v.extend_from_slice(b"258EAFA5-E914-47DA-95CA-C5AB0DC85B11");
    base64(&sha1(&v))
}

#[derive(Debug, Clone, Serialize, Deserialize, PartialEq, Eq, Hash)]
pub struct RawFrame {
    pub fin: bool,
    pub opcode: u8,
    pub mask: Option<[u8; 4]>,
    /// payload = pseudo-random bytes (seed, len)
    pub len: u32,
    pub seed: u16,
    /// announce this length instead of `len` in the header (header-only / lying frames)
    pub announce: Option<u64>,
}

fn payload(seed: u16, len: usize) -> Vec<u8> {
    (0..len).map(|i| crate::util::data_byte(seed as u64, i as u64)).collect()
}

fn ref_encode(f: &RawFrame, out: &mut Vec<u8>) {
    let pl = payload(f.seed, f.len as usize);
    out.push(if f.fin { 0x80 } else { 0 } | (f.opcode & 0x0f));
    let m = if f.mask.is_some() { 0x80u8 } else { 0 };
    let n = f.announce.unwrap_or(f.len as u64);
    if n < 126 {
        out.push(m | n as u8);
    } else if n <= 65_535 {
        out.push(m | 126);
        out.extend_from_slice(&(n as u16).to_be_bytes());
    } else {
        out.push(m | 127);
        out.extend_from_slice(&n.to_be_bytes());
    }
    match f.mask {
        Some(k) => {
            out.extend_from_slice(&k);
            out.extend(pl.iter().enumerate().map(|(i, b)| b ^ k[i & 3]));
        }
        None => out.extend_from_slice(&pl),
    }
}

/// reference decoder of exactly one frame: (fin, opcode, masked, payload, bytes consumed, minimal length form)
fn ref_decode(b: &[u8]) -> Option<(bool, u8, bool, Vec<u8>, usize, bool)> {
    if b.len() < 2 {
        return None;
    }
    let fin = b[0] & 0x80 != 0;
    let op = b[0] & 0x0f;
    let masked = b[1] & 0x80 != 0;
    let mut idx = 2;
    let l7 = (b[1] & 0x7f) as u64;
    let (len, minimal) = match l7 {
        126 => {
            let n = u16::from_be_bytes([*b.get(2)?, *b.get(3)?]) as u64;
            idx += 2;
            (n, n >= 126)
        }
        127 => {
            let mut a = [0u8; 8];
            a.copy_from_slice(b.get(2..10)?);
            idx += 8;
            let n = u64::from_be_bytes(a);
            (n, n > 65_535)
        }
        n => (n, true),
    };
    let key = if masked {
        let k = b.get(idx..idx + 4)?;
        idx += 4;
        Some([k[0], k[1], k[2], k[3]])
    } else {
        None
    };
    let end = idx.checked_add(len as usize)?;
    let raw = b.get(idx..end)?;
    let pl: Vec<u8> = match key {
        Some(k) => raw.iter().enumerate().map(|(i, x)| x ^ k[i & 3]).collect(),
        None => raw.to_vec(),
    };
    Some((fin, op, masked, pl, end, minimal))
}

// ------------------------------------------------------------------------------------------
// cases
// ------------------------------------------------------------------------------------------

#[derive(Debug, Clone, Serialize, Deserialize, PartialEq, Eq, Hash)]
pub enum Msg {
    Text(u32, u16),
    Binary(u32, u16),
    Ping(u8, u16),
    Pong(u8, u16),
    Close(Option<(u16, u8)>),
    First { text: bool, len: u32, seed: u16 },
    Continue(u32, u16),
    Last(u32, u16),
}

#[derive(Debug, Clone, Serialize, Deserialize)]
pub enum Case {
    /// messages encoded by `client_to_server` role, decoded by the other, delivered in `cuts`
    Roundtrip { c2s: bool, msgs: Vec<Msg>, cuts: Vec<u16>, max_size: u32 },
    /// raw frames delivered to a codec of the given role; whole vs. cuts
    Stream { server: bool, frames: Vec<RawFrame>, cuts: Vec<u16>, all_single_cuts: bool, max_size: u32, align: u8 },
    /// header of an oversize frame + `have` payload bytes
    Oversize { server: bool, announce: u64, have: u16, max_size: u32, opcode: u8 },
    Handshake { method: u8, upgrade: Option<u8>, connection: Option<u8>, version: Option<u8>, key: Option<Vec<u8>>, extra_first: bool },
}

fn text_payload(seed: u16, len: usize) -> String {
    (0..len).map(|i| (b'a' + crate::util::data_byte(seed as u64, i as u64) % 26) as char).collect()
}

fn to_message(m: &Msg) -> Message {
    match m {
        Msg::Text(l, s) => Message::Text(text_payload(*s, *l as usize).into()),
        Msg::Binary(l, s) => Message::Binary(Bytes::from(payload(*s, *l as usize))),
        Msg::Ping(l, s) => Message::Ping(Bytes::from(payload(*s, (*l).min(125) as usize))),
        Msg::Pong(l, s) => Message::Pong(Bytes::from(payload(*s, (*l).min(125) as usize))),
        Msg::Close(None) => Message::Close(None),
        Msg::Close(Some((code, dl))) => Message::Close(Some(CloseReason {
            code: CloseCode::from(1000 + code % 12),
            description: if *dl == 0 { None } else { Some(text_payload(*code, (*dl).min(100) as usize)) },
        })),
        Msg::First { text, len, seed } => {
            let b = Bytes::from(payload(*seed, *len as usize));
            Message::Continuation(if *text { Item::FirstText(b) } else { Item::FirstBinary(b) })
        }
        Msg::Continue(l, s) => Message::Continuation(Item::Continue(Bytes::from(payload(*s, *l as usize)))),
        Msg::Last(l, s) => Message::Continuation(Item::Last(Bytes::from(payload(*s, *l as usize)))),
    }
}

fn frame_matches(m: &Message, f: &Frame) -> bool {
    match (m, f) {
        (Message::Text(a), Frame::Text(b)) => a.as_bytes() == &b[..],
        (Message::Binary(a), Frame::Binary(b)) => a == b,
        (Message::Ping(a), Frame::Ping(b)) => a == b,
        (Message::Pong(a), Frame::Pong(b)) => a == b,
        (Message::Close(a), Frame::Close(b)) => a == b,
        (Message::Continuation(a), Frame::Continuation(b)) => a == b,
        _ => false,
    }
}

fn err_name(e: &ProtocolError) -> String {
    format!("{e:?}")
}

/// what a decoder yields for a byte stream delivered in segments
#[derive(Debug, PartialEq)]
struct Decoded {
    frames: Vec<String>,
    error: Option<String>,
    max_payload: usize,
    max_capacity: usize,
}

fn describe(f: &Frame) -> (String, usize) {
    match f {
        Frame::Text(b) => (format!("Text({} {:x})", b.len(), crate::util::hash_bytes(b)), b.len()),
        Frame::Binary(b) => (format!("Binary({} {:x})", b.len(), crate::util::hash_bytes(b)), b.len()),
        Frame::Ping(b) => (format!("Ping({} {:x})", b.len(), crate::util::hash_bytes(b)), b.len()),
        Frame::Pong(b) => (format!("Pong({} {:x})", b.len(), crate::util::hash_bytes(b)), b.len()),
        Frame::Close(r) => (format!("Close({r:?})"), 0),
        Frame::Continuation(i) => {
            let (n, b) = match i {
                Item::FirstText(b) => ("FirstText", b),
                Item::FirstBinary(b) => ("FirstBinary", b),
                Item::Continue(b) => ("Continue", b),
                Item::Last(b) => ("Last", b),
            };
            (format!("{n}({} {:x})", b.len(), crate::util::hash_bytes(b)), b.len())
        }
    }
}

fn decode_stream(codec: &mut Codec, bytes: &[u8], cuts: &[usize], align: usize) -> Decoded {
    // `align` junk bytes are consumed first so that payloads start at different alignments
    let mut buf = BytesMut::with_capacity(64);
    buf.extend_from_slice(&vec![0u8; align]);
    let _ = buf.split_to(align);
    let mut out = Decoded { frames: vec![], error: None, max_payload: 0, max_capacity: 0 };
    let mut prev = 0;
    let mut points: Vec<usize> = cuts.iter().copied().filter(|c| *c > 0 && *c < bytes.len()).collect();
    points.sort_unstable();
    points.dedup();
    points.push(bytes.len());
    for c in points {
        buf.extend_from_slice(&bytes[prev..c]);
        prev = c;
        loop {
            match codec.decode(&mut buf) {
                Ok(Some(f)) => {
                    let (d, l) = describe(&f);
                    out.max_payload = out.max_payload.max(l);
                    out.frames.push(d);
                }
                Ok(None) => break,
                Err(e) => {
                    out.error = Some(err_name(&e));
                    out.max_capacity = out.max_capacity.max(buf.capacity());
                    return out;
                }
            }
            out.max_capacity = out.max_capacity.max(buf.capacity());
        }
        out.max_capacity = out.max_capacity.max(buf.capacity());
    }
    out
}

/// Expected outcome of a raw frame sequence by RFC 6455 (reference state machine):
/// index of the first illegal frame and why, or None.
fn first_illegal(frames: &[RawFrame], server: bool, max_size: usize) -> Option<(usize, &'static str)> {
    let mut in_frag = false;
    for (i, f) in frames.iter().enumerate() {
        if f.mask.is_some() != server {
            return Some((i, "wrong masking for the role"));
        }
        if !matches!(f.opcode, 0 | 1 | 2 | 8 | 9 | 10) {
            return Some((i, "reserved opcode"));
        }
        let n = f.announce.unwrap_or(f.len as u64);
        if n > max_size as u64 {
            return Some((i, "payload larger than max_size"));
        }
        let control = f.opcode >= 8;
        if control && !f.fin {
            return Some((i, "fragmented control frame"));
        }
        if control && n > 125 {
            return Some((i, "control frame longer than 125"));
        }
        match f.opcode {
            0 => {
                if !in_frag {
                    return Some((i, "continuation without start"));
                }
                if f.fin {
                    in_frag = false;
                }
            }
            1 | 2 => {
                if in_frag {
                    return Some((i, if f.fin { "unfragmented data frame inside a fragmented message" } else { "start inside a fragmented message" }));
                }
                if !f.fin {
                    in_frag = true;
                }
            }
            _ => {}
        }
    }
    None
}

pub fn run_case(cfg: &RunCfg, case: &Case) -> Verdict {
    match case {
        Case::Roundtrip { c2s, msgs, cuts, max_size } => {
            let (mut enc, mut dec) = if *c2s {
                (Codec::new().client_mode(), Codec::new().max_size(*max_size as usize))
            } else {
                (Codec::new(), Codec::new().client_mode().max_size(*max_size as usize))
            };
            // make the message sequence a legal conversation: continuation items in order
            let mut in_frag = false;
            let mut sent: Vec<Message> = vec![];
            let mut wire = BytesMut::new();
            let mut frame_ends = vec![];
            for m in msgs {
                let legal = match m {
                    Msg::First { .. } => !in_frag,
                    Msg::Continue(..) | Msg::Last(..) => in_frag,
                    // data messages are not sent inside a fragmented message
                    Msg::Text(..) | Msg::Binary(..) => !in_frag,
                    _ => true,
                };
                let msg = to_message(m);
                let before = wire.len();
                let r = enc.encode(msg, &mut wire);
                match (legal, &r) {
                    (true, Ok(())) | (false, Err(_)) => {}
                    (false, Ok(())) if matches!(m, Msg::Text(..) | Msg::Binary(..)) => {
                        // the encoder does not police this; do not send it
                        wire.truncate(before);
                        continue;
                    }
                    _ => return Verdict::failed(format!("encoder {} {m:?} (in fragmented message: {in_frag}): {r:?}", if legal { "refused legal" } else { "accepted illegal" })),
                }
                if r.is_ok() {
                    match m {
                        Msg::First { .. } => in_frag = true,
                        Msg::Last(..) => in_frag = false,
                        _ => {}
                    }
                    // layout check with the reference decoder
                    let Some((fin, op, masked, pl, used, minimal)) = ref_decode(&wire[before..]) else {
                        return Verdict::failed(format!("encoder output for {m:?} is not a complete frame"));
                    };
                    if used != wire.len() - before || masked != *c2s || !minimal {
                        return Verdict::failed(format!(
                            "encoder output for {m:?}: {} bytes, frame uses {used}, masked={masked} (client->server: {c2s}), minimal length form: {minimal}",
                            wire.len() - before
                        ));
                    }
                    let (want_op, want_fin, want_pl): (u8, bool, Vec<u8>) = match m {
                        Msg::Text(l, s) => (1, true, text_payload(*s, *l as usize).into_bytes()),
                        Msg::Binary(l, s) => (2, true, payload(*s, *l as usize)),
                        Msg::Ping(l, s) => (9, true, payload(*s, (*l).min(125) as usize)),
                        Msg::Pong(l, s) => (10, true, payload(*s, (*l).min(125) as usize)),
                        Msg::Close(_) => (8, true, pl.clone()),
                        Msg::First { text, len, seed } => (if *text { 1 } else { 2 }, false, payload(*seed, *len as usize)),
                        Msg::Continue(l, s) => (0, false, payload(*s, *l as usize)),
                        Msg::Last(l, s) => (0, true, payload(*s, *l as usize)),
                    };
                    if op != want_op || fin != want_fin || pl != want_pl {
                        return Verdict::failed(format!("encoder output for {m:?}: opcode {op} fin {fin} payload {} bytes; expected opcode {want_op} fin {want_fin} {} bytes (unmasked content equal: {})", pl.len(), want_pl.len(), pl == want_pl));
                    }
                    sent.push(to_message(m));
                    frame_ends.push(wire.len());
                }
            }
            // decode at the other role under the segmentation
            let total = wire.len();
            let cut_pos: Vec<usize> = cuts.iter().map(|c| crate::util::pick_idx(*c, total + 1)).collect();
            let whole = wire.to_vec();
            let mut buf = BytesMut::new();
            let mut got: Vec<Frame> = vec![];
            let mut points = cut_pos.clone();
            points.sort_unstable();
            points.dedup();
            points.push(total);
            let mut prev = 0;
            let mut err = None;
            'outer: for c in points {
                if c < prev {
                    continue;
                }
                buf.extend_from_slice(&whole[prev..c]);
                prev = c;
                loop {
                    match dec.decode(&mut buf) {
                        Ok(Some(f)) => got.push(f),
                        Ok(None) => break,
                        Err(e) => {
                            err = Some(e);
                            break 'outer;
                        }
                    }
                }
            }
            // frames larger than the receiver's max_size are refused (that is the limit working)
            let limit = *max_size as usize;
            let first_big = sent.iter().position(|m| match m {
                Message::Text(t) => t.len() > limit,
                Message::Binary(b) | Message::Ping(b) | Message::Pong(b) => b.len() > limit,
                Message::Continuation(Item::FirstText(b) | Item::FirstBinary(b) | Item::Continue(b) | Item::Last(b)) => b.len() > limit,
                Message::Close(Some(r)) => 2 + r.description.as_ref().map(|d| d.len()).unwrap_or(0) > limit,
                _ => false,
            });
            let expect_n = first_big.unwrap_or(sent.len());
            if got.len() < expect_n || (first_big.is_none() && err.is_some()) {
                return Verdict::failed(format!(
                    "{} messages encoded by the {} codec, the peer decoded {} (error {:?}); first message over max_size {limit}: {first_big:?}",
                    sent.len(),
                    if *c2s { "client" } else { "server" },
                    got.len(),
                    err.as_ref().map(err_name)
                ));
            }
            if first_big.is_some() && (err.is_none() || got.len() != expect_n) {
                return Verdict::failed(format!("a message over max_size {limit} was not refused: decoded {} frames, error {:?}", got.len(), err.as_ref().map(err_name)));
            }
            for (i, (m, f)) in sent.iter().zip(got.iter()).enumerate() {
                if !frame_matches(m, f) {
                    return Verdict::failed(format!("message {i} {m:?} decoded at the other role as {}", describe(f).0));
                }
            }
            let boundary_len = msgs.iter().any(|m| matches!(m, Msg::Text(l, _) | Msg::Binary(l, _) | Msg::Continue(l, _) | Msg::Last(l, _) if matches!(*l, 125 | 126 | 127 | 65_535 | 65_536)));
            let cut_in_header = cut_pos.iter().any(|c| {
                let start = frame_ends.iter().rev().find(|e| **e <= *c).copied().unwrap_or(0);
                *c > start && *c - start < 14
            });
            Verdict::ok().nt(boundary_len || cut_in_header).class_if(*c2s, "client-to-server").class_if(!*c2s, "server-to-client").class_if(boundary_len, "length-at-encoding-boundary").class_if(cut_in_header, "cut-inside-header")
        }

        Case::Stream { server, frames, cuts, all_single_cuts, max_size, align } => {
            let mut bytes = vec![];
            let mut ends = vec![];
            for f in frames {
                ref_encode(f, &mut bytes);
                ends.push(bytes.len());
            }
            let mk = || {
                let c = Codec::new().max_size(*max_size as usize);
                if *server {
                    c
                } else {
                    c.client_mode()
                }
            };
            let whole = decode_stream(&mut mk(), &bytes, &[], 0);
            let illegal = first_illegal(frames, *server, *max_size as usize);
            let mut v = Verdict::ok()
                .nt(illegal.is_some() || !cuts.is_empty() || *all_single_cuts)
                .class_if(illegal.is_some(), "illegal-sequence")
                .class_if(*all_single_cuts, "every-single-cut");
            if let Some((_, why)) = illegal {
                v = v.class(match why {
                    "wrong masking for the role" => "illegal:masking",
                    "reserved opcode" => "illegal:reserved-opcode",
                    "payload larger than max_size" => "illegal:over-max-size",
                    "fragmented control frame" => "illegal:fragmented-control",
                    "control frame longer than 125" => "illegal:long-control",
                    "continuation without start" => "illegal:continuation-without-start",
                    "start inside a fragmented message" => "illegal:start-inside-fragmented",
                    _ => "illegal:unfragmented-data-inside-fragmented",
                });
            }
            // ---- strictness and limits on the whole stream
            match illegal {
                None => {
                    if whole.error.is_some() || whole.frames.len() != frames.len() {
                        return v.fail_with(format!(
                            "legal frame sequence {frames:?} decoded to {} frames, error {:?}",
                            whole.frames.len(),
                            whole.error
                        ));
                    }
                }
                Some((i, why)) => {
                    let listed = !cfg.strict && why == "unfragmented data frame inside a fragmented message" && cfg.kf.active("C14", "unfragmented-data-frame-inside-fragmented-message");
                    // an over-long Close is deliberately turned into Close(None): the payload is
                    // never delivered, which counts as refusal
                    let close_morph = frames[i].opcode == 8
                        && frames[i].announce.unwrap_or(frames[i].len as u64) > 125
                        && matches!(why, "control frame longer than 125" | "fragmented control frame");
                    if listed {
                        v = v.kf_skip("unfragmented-data-frame-inside-fragmented-message");
                    } else if close_morph {
                        if whole.frames.get(i).map(|s| s.as_str()) != Some("Close(None)") && whole.error.is_none() {
                            return v.fail_with(format!("over-long close frame was delivered as {:?}", whole.frames.get(i)));
                        }
                    } else if whole.frames.len() != i || whole.error.is_none() {
                        return v.fail_with(format!(
                            "frame {i} of {frames:?} is illegal ({why}) but the {} decoder produced {} frames and error {:?}",
                            if *server { "server" } else { "client" },
                            whole.frames.len(),
                            whole.error
                        ));
                    }
                }
            }
            if whole.max_payload > *max_size as usize {
                return v.fail_with(format!("a payload of {} bytes was delivered with max_size {max_size}", whole.max_payload));
            }
            // ---- segmentation independence
            let mut cut_sets: Vec<Vec<usize>> = vec![];
            if *all_single_cuts && bytes.len() <= 400 {
                for c in 1..bytes.len() {
                    cut_sets.push(vec![c]);
                }
            }
            if !cuts.is_empty() {
                cut_sets.push(cuts.iter().map(|c| crate::util::pick_idx(*c, bytes.len() + 1)).collect());
            }
            for cs in cut_sets {
                let got = decode_stream(&mut mk(), &bytes, &cs, *align as usize);
                if got.frames != whole.frames || got.error != whole.error {
                    return v.fail_with(format!(
                        "frames {frames:?}: delivered whole -> {:?} / error {:?}; delivered with cuts at {cs:?} (buffer alignment {align}) -> {:?} / error {:?}",
                        whole.frames, whole.error, got.frames, got.error
                    ));
                }
            }
            v
        }

        Case::Oversize { server, announce, have, max_size, opcode } => {
            // header of a frame announcing more than max_size, followed by `have` payload bytes
            let f = RawFrame { fin: true, opcode: *opcode, mask: if *server { Some([1, 2, 3, 4]) } else { None }, len: *have as u32, seed: 5, announce: Some(*announce) };
            let mut bytes = vec![];
            ref_encode(&f, &mut bytes);
            let mut buf = BytesMut::with_capacity(64);
            buf.extend_from_slice(&bytes);
            let r = Parser::parse(&mut buf, *server, *max_size as usize);
            let cap = buf.capacity();
            let v = Verdict::ok().nt(true).class_if(*announce > u32::MAX as u64, "announce-over-4GiB");
            // the decode buffer must not be grown towards the announced size
            let cap_bound = (*max_size as usize + 14).next_power_of_two() * 2 + 4096;
            if cap > cap_bound {
                return v.fail_with(format!(
                    "a frame header announcing {announce} bytes (max_size {max_size}) made the decode buffer grow to a capacity of {cap} bytes (bound {cap_bound})"
                ));
            }
            match r {
                Err(_) => v,
                Ok(None) => {
                    if !cfg.strict && cfg.kf.active("C14", "oversize-frame-refused-only-when-buffered") {
                        v.kf_skip("oversize-frame-refused-only-when-buffered")
                    } else {
                        v.fail_with(format!(
                            "a frame header announcing {announce} payload bytes with max_size {max_size} ({} payload bytes supplied) is not refused: the parser answers 'need more data' and the caller keeps buffering",
                            have
                        ))
                    }
                }
                Ok(Some(x)) => v.fail_with(format!("oversize frame delivered: {:?}", x.1)),
            }
        }

        Case::Handshake { method, upgrade, connection, version, key, extra_first } => {
            let methods = ["GET", "POST", "HEAD", "PUT"];
            let upgrades = ["websocket", "WebSocket", "WEBSOCKET", "h2c, websocket", "h2c", "", "web socket"];
            let connections = ["Upgrade", "upgrade", "keep-alive, Upgrade", "keep-alive", "close", "", "UPGRADE"];
            let versions = ["13", "8", "7", "12", "14", "", "13, 8", " 13"];
            let mut head = format!("{} /ws HTTP/1.1\r\nHost: x\r\n", methods[*method as usize % 4]);
            if *extra_first {
                head.push_str("X-Other: 1\r\n");
            }
            let up = upgrade.map(|u| upgrades[u as usize % upgrades.len()]);
            let co = connection.map(|c| connections[c as usize % connections.len()]);
            let ve = version.map(|v| versions[v as usize % versions.len()]);
            if let Some(u) = up {
                head.push_str(&format!("Upgrade: {u}\r\n"));
            }
            if let Some(c) = co {
                head.push_str(&format!("Connection: {c}\r\n"));
            }
            if let Some(v) = ve {
                head.push_str(&format!("Sec-WebSocket-Version: {v}\r\n"));
            }
            let mut raw = head.into_bytes();
            if let Some(k) = key {
                raw.extend_from_slice(b"Sec-WebSocket-Key: ");
                raw.extend_from_slice(k);
                raw.extend_from_slice(b"\r\n");
            }
            raw.extend_from_slice(b"\r\n");
            // (the h1 codec's default config starts the date service, which needs a local task set)
            let rt = tokio::runtime::Builder::new_current_thread().enable_time().build().expect("runtime");
            let local = tokio::task::LocalSet::new();
            let decoded = local.block_on(&rt, async {
                let mut codec = actix_http::h1::Codec::default();
                let mut buf = BytesMut::from(&raw[..]);
                codec.decode(&mut buf)
            });
            let req = match decoded {
                Ok(Some(actix_http::h1::Message::Item(req))) => req,
                other => return Verdict::ok().class(if other.is_err() { "head-rejected-by-http-parser" } else { "head-incomplete" }),
            };
            // reference predicate (header values as the HTTP layer delivers them: OWS-trimmed)
            let trim = |s: &str| s.trim_matches(|c| c == ' ' || c == '\t').to_ascii_lowercase();
            let well_formed = methods[*method as usize % 4] == "GET"
                && up.is_some_and(|u| trim(u).split(',').any(|t| t.trim() == "websocket"))
                && co.is_some_and(|c| trim(c).split(',').any(|t| t.trim() == "upgrade"))
                && ve.is_some_and(|v| matches!(trim(v).as_str(), "13" | "8" | "7"))
                && key.is_some();
            let res = ws::handshake(req.head());
            let v = Verdict::ok().nt(true).class_if(well_formed, "well-formed").class_if(!well_formed, "malformed");
            match (well_formed, res) {
                (true, Ok(mut b)) => {
                    let resp = b.finish();
                    let acc = resp.headers().get("sec-websocket-accept").map(|h| h.as_bytes().to_vec());
                    // the key as delivered by the HTTP layer (OWS-trimmed)
                    let k = key.as_ref().unwrap();
                    let kt: Vec<u8> = {
                        let s = k.iter().position(|c| *c != b' ' && *c != b'\t').unwrap_or(k.len());
                        let e = k.iter().rposition(|c| *c != b' ' && *c != b'\t').map(|p| p + 1).unwrap_or(s);
                        k[s..e.max(s)].to_vec()
                    };
                    let want = ref_accept(&kt);
                    if acc.as_deref() != Some(want.as_bytes()) || resp.status().as_u16() != 101 {
                        return v.fail_with(format!(
                            "handshake for key {:?}: status {} accept {:?}, RFC 6455 gives {want}",
                            String::from_utf8_lossy(&kt),
                            resp.status(),
                            acc.map(|a| String::from_utf8_lossy(&a).into_owned())
                        ));
                    }
                    if ws::hash_key(&kt)[..] != *want.as_bytes() {
                        return v.fail_with("hash_key disagrees with base64(sha1(key + GUID))");
                    }
                    v
                }
                (false, Err(_)) => v,
                (true, Err(e)) => v.fail_with(format!("well-formed upgrade request refused: {e:?}\n{}", String::from_utf8_lossy(&raw))),
                (false, Ok(_)) => v.fail_with(format!("malformed upgrade request accepted:\n{}", String::from_utf8_lossy(&raw))),
            }
        }
    }
}

// ------------------------------------------------------------------------------------------
// generators
// ------------------------------------------------------------------------------------------

fn len_menu() -> impl Strategy<Value = u32> {
    prop_oneof![
        3 => prop_oneof![Just(0u32), Just(1u32), Just(125u32), Just(126u32), Just(127u32), Just(65_535u32), Just(65_536u32), Just(70_000u32)],
        3 => 0u32..300,
        1 => 300u32..70_000,
    ]
}

fn msg_strategy() -> impl Strategy<Value = Msg> {
    prop_oneof![
        3 => (len_menu(), any::<u16>()).prop_map(|(l, s)| Msg::Text(l, s)),
        3 => (len_menu(), any::<u16>()).prop_map(|(l, s)| Msg::Binary(l, s)),
        2 => (0u8..126, any::<u16>()).prop_map(|(l, s)| Msg::Ping(l, s)),
        2 => (0u8..126, any::<u16>()).prop_map(|(l, s)| Msg::Pong(l, s)),
        1 => proptest::option::of((any::<u16>(), 0u8..100)).prop_map(Msg::Close),
        2 => (any::<bool>(), len_menu(), any::<u16>()).prop_map(|(text, len, seed)| Msg::First { text, len, seed }),
        2 => (len_menu(), any::<u16>()).prop_map(|(l, s)| Msg::Continue(l, s)),
        2 => (len_menu(), any::<u16>()).prop_map(|(l, s)| Msg::Last(l, s)),
    ]
}

fn max_size_menu() -> impl Strategy<Value = u32> {
    prop_oneof![Just(0u32), Just(1u32), Just(125u32), Just(126u32), Just(65_536u32), Just(65_536u32), Just(1u32 << 20)]
}

fn raw_frame(server: bool) -> impl Strategy<Value = RawFrame> {
    (
        proptest::bool::weighted(0.7),
        prop_oneof![6 => proptest::sample::select(vec![0u8, 1, 2, 8, 9, 10]), 1 => 3u8..8, 1 => 11u8..16],
        // masks: fixed menu + random; wrong masking for the role with small probability
        (proptest::bool::weighted(0.93), prop_oneof![Just([0u8; 4]), Just([0xff; 4]), Just([1, 2, 3, 4]), any::<[u8; 4]>()]),
        prop_oneof![4 => len_menu(), 4 => 0u32..130],
        any::<u16>(),
    )
        .prop_map(move |(fin, opcode, (right_mask, key), len, seed)| RawFrame {
            fin,
            opcode,
            mask: if server == right_mask { Some(key) } else { None },
            len,
            seed,
            announce: None,
        })
}

fn stream_case(short: bool) -> impl Strategy<Value = Case> {
    any::<bool>().prop_flat_map(move |server| {
        (
            proptest::collection::vec(raw_frame(server), 1..6).prop_map(move |mut v| {
                if short {
                    for f in v.iter_mut() {
                        f.len %= 60;
                    }
                }
                v
            }),
            proptest::collection::vec(any::<u16>(), 0..6),
            max_size_menu(),
            0u8..4,
        )
            .prop_map(move |(frames, cuts, max_size, align)| Case::Stream { server, frames, cuts, all_single_cuts: short, max_size, align })
    })
}

pub fn run(cfg: &RunCfg) -> Report {
    let mut rep = Report::new("C14");
    rep.rule = "phase roundtrip: sequences of 1-8 messages (all kinds, payload lengths 0/1/125/126/127/65535/65536/70000/random, fragmented messages) encoded by the client or the server codec, layout checked by the reference decoder, decoded by the other role under random cuts, receiver max_size from 0..1 MiB; phase cuts-exhaustive: raw frame sequences (legal and illegal, all opcodes incl. reserved, right and wrong masking, masks 0/ff/1234/random) of up to 400 bytes decoded whole and with EVERY single cut position; phase stream: longer raw sequences with random multi-cuts and buffer alignments 0-3; phase oversize: header announcing max_size+1 .. 2^63 with 0..300 payload bytes supplied; phase handshake: request heads from a grammar over method, Upgrade, Connection, Sec-WebSocket-Version and key bytes, parsed by the real h1 decoder; \
                non-trivial = a payload length at an encoding boundary, or a cut inside a frame header, or an illegal sequence, or any oversize / handshake case; distinct by hash of the case"
        .into();
    rep.assumptions = vec![
        "RSV bits and UTF-8 validity of text are not claimed by the property and not checked".into(),
        "an over-long Close frame turned into Close(None) counts as refused (its payload is never delivered)".into(),
        "well-formed upgrade request = GET, Upgrade contains the token websocket, Connection contains the token upgrade (case-insensitive, comma-separated lists), Sec-WebSocket-Version 13/8/7 (the versions the implementation documents), a key header present".into(),
        "reference frame codec, SHA-1 and base64 are written in harness/src/props/c14.rs".into(),
    ];
    runner::replay_pinned(&mut rep, cfg, &replay);
    runner::replay_regress(&mut rep, cfg, &replay);
    explore(
        &mut rep,
        cfg,
        "roundtrip",
        cfg.cases(200_000, 4_000_000),
        || {
            (any::<bool>(), proptest::collection::vec(msg_strategy(), 1..8), proptest::collection::vec(any::<u16>(), 0..6), prop_oneof![3 => Just(1u32 << 20), 1 => max_size_menu()])
                .prop_map(|(c2s, msgs, cuts, max_size)| Case::Roundtrip { c2s, msgs, cuts, max_size })
        },
        |c| run_case(cfg, c),
    );
    explore(&mut rep, cfg, "cuts-exhaustive", cfg.cases(150_000, 3_000_000), || stream_case(true), |c| run_case(cfg, c));
    explore(&mut rep, cfg, "stream", cfg.cases(300_000, 6_000_000), || stream_case(false), |c| run_case(cfg, c));
    // oversize: moderate announced sizes first (a regression that allocates the announced size fails
    // here cleanly); astronomically large ones only if that phase held
    let oversize = |big: bool| {
        move || {
            (
                any::<bool>(),
                max_size_menu(),
                if big {
                    prop_oneof![Just(1u64 << 32), Just(1u64 << 40), Just(1u64 << 62), Just((1u64 << 63) - 1), Just(1u64 << 63), Just((1u64 << 63) + 1), Just(u64::MAX), Just(u64::MAX - 1), (0u64..20).prop_map(|k| u64::MAX - k)].boxed()
                } else {
                    prop_oneof![Just(1u64), Just(2u64), Just(1000u64), Just(65_536u64), Just(1u64 << 24), Just(1u64 << 28)].boxed()
                },
                0u16..300,
                proptest::sample::select(vec![1u8, 2, 0, 9, 8]),
            )
                .prop_map(move |(server, max_size, extra, have, opcode)| {
                    let announce = if big { extra } else { max_size as u64 + extra };
                    Case::Oversize { server, announce, have: (have as u64).min(announce.saturating_sub(1)) as u16, max_size, opcode }
                })
        }
    };
    let before = rep.violations.len();
    explore(&mut rep, cfg, "oversize", cfg.cases(100_000, 2_000_000), oversize(false), |c| run_case(cfg, c));
    if rep.violations.len() == before {
        explore(&mut rep, cfg, "oversize-huge", cfg.cases(5_000, 100_000), oversize(true), |c| run_case(cfg, c));
    }
    // handshake: the menu space is small enough to enumerate completely for three keys
    let mut hs = vec![];
    for method in 0..4u8 {
        for upgrade in std::iter::once(None).chain((0..7u8).map(Some)) {
            for connection in std::iter::once(None).chain((0..7u8).map(Some)) {
                for version in std::iter::once(None).chain((0..8u8).map(Some)) {
                    for key in [None, Some(b"dGhlIHNhbXBsZSBub25jZQ==".to_vec()), Some(b"x".to_vec())] {
                        hs.push(Case::Handshake { method, upgrade, connection, version, key, extra_first: (method + version.unwrap_or(0)) % 2 == 0 });
                    }
                }
            }
        }
    }
    enumerate(&mut rep, cfg, "handshake-menu", true, hs, |c| run_case(cfg, c));
    explore(
        &mut rep,
        cfg,
        "handshake-keys",
        cfg.cases(20_000, 400_000),
        || {
            (
                prop_oneof![5 => Just(0u8), 1 => 1u8..4],
                proptest::option::weighted(0.9, 0u8..7),
                proptest::option::weighted(0.9, 0u8..7),
                proptest::option::weighted(0.9, 0u8..8),
                proptest::option::weighted(0.9, proptest::collection::vec(prop_oneof![8 => 0x21u8..0x7f, 1 => Just(b' '), 1 => 0x80u8..=0xff], 0..40)),
                any::<bool>(),
            )
                .prop_map(|(method, upgrade, connection, version, key, extra_first)| Case::Handshake { method, upgrade, connection, version, key, extra_first })
        },
        |c| run_case(cfg, c),
    );
    rep.exhaustive = false;
    rep
}

pub fn replay(cfg: &RunCfg, _phase: &str, case: &serde_json::Value) -> Result<Verdict, String> {
    let c: Case = runner::from_json(case)?;
    Ok(run_case(cfg, &c))
}
