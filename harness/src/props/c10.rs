//! C10 — path patterns match exactly their language (`actix_router::{ResourceDef, Path, Quoter}`).
//!
//! Patterns are generated from a grammar (static text, `{name}`, `{name:regex}` with a regex menu,
//! optional `{tail}*`, single or list, `new` or `prefix`) together with a reference AST; a small
//! backtracking matcher written here (leftmost, greedy, same alternation order, anchored, with the
//! documented `$` / `(/|$)` ending) gives the expected matched length and capture spans. The three
//! entry points (`is_match`, `find_match`, `capture_match_info`) must agree with each other and
//! with the model on every path: all paths over a 7-letter alphabet up to length 6 (exhaustive),
//! paths derived from the pattern's own language with perturbations, and paths up to the 65 534
//! byte URL limit with the captured segments at the far end. Built paths must match and give the
//! values back. The partial percent-decoder is compared with a reference decoder on all strings
//! over a 9-letter alphabet up to length 7 (exhaustive) and on random bytes.

use actix_router::{Path, Quoter, ResourceDef};
use proptest::prelude::*;
use serde::{Deserialize, Serialize};

use crate::runner::{self, enumerate, explore, Report, RunCfg, Verdict};

// ------------------------------------------------------------------------------------------
// reference regex-lite engine
// ------------------------------------------------------------------------------------------

#[derive(Debug, Clone)]
enum Re {
    Str(Vec<u8>),
    /// 0 = [^/], 1 = \d, 2 = [ab], 3 = any byte
    Class(u8),
    Lit(u8),
    Seq(Vec<Re>),
    Alt(Vec<Re>),
    Plus(Box<Re>),
    Star(Box<Re>),
    Opt(Box<Re>),
    Cap(usize, Box<Re>),
    /// end of input
    End,
    /// `(/|$)`
    Boundary,
}

type Caps = Vec<Option<(usize, usize)>>;

fn class(k: u8, c: u8) -> bool {
    match k {
        0 => c != b'/',
        1 => c.is_ascii_digit(),
        2 => c == b'a' || c == b'b',
        _ => true,
    }
}

fn m(re: &Re, s: &[u8], i: usize, caps: &mut Caps, k: &mut dyn FnMut(usize, &mut Caps) -> bool) -> bool {
    match re {
        Re::Str(t) => s[i..].starts_with(t) && k(i + t.len(), caps),
        Re::Lit(c) => i < s.len() && s[i] == *c && k(i + 1, caps),
        Re::Class(c) => i < s.len() && class(*c, s[i]) && k(i + 1, caps),
        Re::End => i == s.len() && k(i, caps),
        Re::Boundary => (i < s.len() && s[i] == b'/' && k(i + 1, caps)) || (i == s.len() && k(i, caps)),
        Re::Seq(v) => m_seq(v, s, i, caps, k),
        Re::Alt(v) => {
            for a in v {
                if m(a, s, i, caps, k) {
                    return true;
                }
            }
            false
        }
        Re::Plus(x) => m(x, s, i, caps, &mut |j, caps| (j > i && m(re, s, j, caps, k)) || k(j, caps)),
        Re::Star(x) => m(x, s, i, caps, &mut |j, caps| j > i && m(re, s, j, caps, k)) || k(i, caps),
        Re::Opt(x) => m(x, s, i, caps, k) || k(i, caps),
        Re::Cap(n, x) => m(x, s, i, caps, &mut |j, caps| {
            let old = caps[*n];
            caps[*n] = Some((i, j));
            if k(j, caps) {
                true
            } else {
                caps[*n] = old;
                false
            }
        }),
    }
}

fn m_seq(v: &[Re], s: &[u8], i: usize, caps: &mut Caps, k: &mut dyn FnMut(usize, &mut Caps) -> bool) -> bool {
    match v.split_first() {
        None => k(i, caps),
        Some((h, rest)) => m(h, s, i, caps, &mut |j, caps| m_seq(rest, s, j, caps, k)),
    }
}

// ------------------------------------------------------------------------------------------
// pattern grammar
// ------------------------------------------------------------------------------------------

#[derive(Debug, Clone, Serialize, Deserialize, PartialEq, Eq, Hash)]
pub enum Seg {
    Static(String),
    /// dynamic segment with regex kind: 0 default `[^/]+`, 1 `\d+`, 2 `[ab]+`, 3 `[^/]*`, 4 `a|bb`,
    /// 5 `.+`, 6 `(a|b)+` (user capture group), 7 `v(\d)?` (optional user group)
    Dyn(u8),
}

#[derive(Debug, Clone, Serialize, Deserialize, PartialEq, Eq, Hash)]
pub struct Pat {
    pub segs: Vec<Seg>,
    pub tail: bool,
}

const KIND_RE: [&str; 8] = ["", r"\d+", "[ab]+", "[^/]*", "a|bb", ".+", "(a|b)+", r"v(\d)?"];

impl Pat {
    pub fn n_dyn(&self) -> usize {
        self.segs.iter().filter(|s| matches!(s, Seg::Dyn(_))).count() + usize::from(self.tail)
    }
    pub fn text(&self) -> String {
        self.text_from(0)
    }
    /// pattern text with dynamic segments named p{base}, p{base+1}, ...
    pub fn text_from(&self, base: usize) -> String {
        let mut t = String::new();
        let mut n = base;
        for s in &self.segs {
            match s {
                Seg::Static(x) => t.push_str(x),
                Seg::Dyn(k) => {
                    if *k == 0 {
                        t.push_str(&format!("{{p{n}}}"));
                    } else {
                        t.push_str(&format!("{{p{n}:{}}}", KIND_RE[*k as usize]));
                    }
                    n += 1;
                }
            }
        }
        if self.tail {
            t.push_str(&format!("{{p{n}}}*"));
        }
        t
    }
    fn kind_ast(k: u8) -> Re {
        let plus = |c: u8| Re::Plus(Box::new(Re::Class(c)));
        match k {
            0 => plus(0),
            1 => plus(1),
            2 => plus(2),
            3 => Re::Star(Box::new(Re::Class(0))),
            4 => Re::Alt(vec![Re::Lit(b'a'), Re::Str(b"bb".to_vec())]),
            5 => plus(3),
            6 => Re::Plus(Box::new(Re::Alt(vec![Re::Lit(b'a'), Re::Lit(b'b')]))),
            _ => Re::Seq(vec![Re::Lit(b'v'), Re::Opt(Box::new(Re::Class(1)))]),
        }
    }
    /// anchored reference regex; capture i = i-th dynamic segment
    fn ast(&self, prefix: bool) -> Re {
        let mut v = vec![];
        let mut n = 0;
        for s in &self.segs {
            match s {
                Seg::Static(x) => v.push(Re::Str(x.as_bytes().to_vec())),
                Seg::Dyn(k) => {
                    v.push(Re::Cap(n, Box::new(Self::kind_ast(*k))));
                    n += 1;
                }
            }
        }
        if self.tail {
            v.push(Re::Cap(n, Box::new(Re::Star(Box::new(Re::Class(3))))));
        }
        let _ = prefix;
        Re::Seq(v)
    }
}

/// Model: `Some((matched_len, capture spans))`
pub fn model_match(p: &Pat, prefix: bool, path: &[u8]) -> Option<(usize, Vec<(usize, usize)>)> {
    let body = p.ast(prefix);
    let n = p.n_dyn();
    let mut caps: Caps = vec![None; n];
    let mut out: Option<(usize, Caps)> = None;
    let tail = p.tail;
    let ok = m(&body, path, 0, &mut caps, &mut |j, caps| {
        let fin = if tail {
            true
        } else if prefix {
            j == path.len() || path[j] == b'/'
        } else {
            j == path.len()
        };
        if fin {
            out = Some((j, caps.clone()));
        }
        fin
    });
    if !ok {
        return None;
    }
    let (len, caps) = out?;
    let spans: Option<Vec<(usize, usize)>> = caps.into_iter().collect();
    Some((len, spans?))
}

#[derive(Debug, Clone, Serialize, Deserialize)]
pub struct Def {
    pub pats: Vec<Pat>,
    pub prefix: bool,
}

impl Def {
    fn build(&self) -> ResourceDef {
        let texts: Vec<String> = self.pats.iter().map(|p| p.text()).collect();
        match (texts.len(), self.prefix) {
            (1, false) => ResourceDef::new(texts[0].as_str()),
            (1, true) => ResourceDef::prefix(texts[0].as_str()),
            (_, false) => ResourceDef::new(texts),
            (_, true) => ResourceDef::prefix(texts),
        }
    }
    fn model(&self, path: &[u8]) -> Option<(usize, usize, Vec<(usize, usize)>)> {
        for (i, p) in self.pats.iter().enumerate() {
            if let Some((l, c)) = model_match(p, self.prefix, path) {
                return Some((i, l, c));
            }
        }
        None
    }
}

fn static_text() -> impl Strategy<Value = String> {
    proptest::collection::vec(proptest::sample::select(vec!['/', 'a', 'b', '-', '.', 'v', '1']), 1..4)
        .prop_map(|v| v.into_iter().collect::<String>())
}

pub fn pat_strategy(allow_tail: bool, heavy: bool) -> impl Strategy<Value = Pat> {
    (
        proptest::collection::vec(
            prop_oneof![
                3 => static_text().prop_map(Seg::Static),
                3 => if heavy { (0u8..8).boxed() } else { prop_oneof![Just(0u8), Just(1u8), Just(2u8)].boxed() }.prop_map(Seg::Dyn),
            ],
            0..5,
        ),
        proptest::bool::weighted(if allow_tail { 0.25 } else { 0.0 }),
    )
        .prop_map(|(segs, tail)| {
            // patterns are empty or start with '/', consecutive statics are merged
            let mut out: Vec<Seg> = vec![];
            for s in segs {
                match (out.last_mut(), s) {
                    (Some(Seg::Static(a)), Seg::Static(b)) => a.push_str(&b),
                    (_, s) => out.push(s),
                }
            }
            match out.first_mut() {
                Some(Seg::Static(a)) => {
                    if !a.starts_with('/') {
                        a.insert(0, '/');
                    }
                }
                Some(_) => out.insert(0, Seg::Static("/".into())),
                None => {}
            }
            // a tail segment is documented after a '/'-terminated static part
            let mut tail = tail;
            if tail {
                match out.last_mut() {
                    Some(Seg::Static(a)) => {
                        if !a.ends_with('/') {
                            a.push('/');
                        }
                    }
                    _ => out.push(Seg::Static("/".into())),
                }
            }
            if out.is_empty() {
                tail = false;
            }
            Pat { segs: out, tail }
        })
}

fn def_strategy(heavy: bool) -> impl Strategy<Value = Def> {
    (any::<bool>(), 1usize..4).prop_flat_map(move |(prefix, n)| {
        let n = if n == 1 { 1 } else { n };
        proptest::collection::vec(pat_strategy(!prefix, heavy), n).prop_map(move |pats| Def { pats, prefix })
    })
}

// ------------------------------------------------------------------------------------------
// the oracle for one (definition, path)
// ------------------------------------------------------------------------------------------

fn check(def: &Def, rd: &ResourceDef, path: &str) -> Result<bool, String> {
    let model = def.model(path.as_bytes());
    let is = rd.is_match(path);
    let fm = rd.find_match(path);
    let mut p = Path::new(path);
    let cap = rd.capture_match_info(&mut p);
    let ctx = || format!("pattern(s) {:?} prefix={} path {:?}", def.pats.iter().map(|p| p.text()).collect::<Vec<_>>(), def.prefix, path);
    if is != fm.is_some() || is != cap {
        return Err(format!("{}: is_match={is}, find_match={fm:?}, capture_match_info={cap} disagree", ctx()));
    }
    match (&model, fm) {
        (None, None) => return Ok(false),
        (Some((_, l, _)), Some(f)) if *l == f => {}
        _ => {
            return Err(format!(
                "{}: the pattern's definition gives {:?} (pattern index, matched length, captures) but find_match returns {fm:?}",
                ctx(),
                model
            ))
        }
    }
    let (pi, len, spans) = model.unwrap();
    if def.prefix && !(len == path.len() || path.as_bytes()[len] == b'/') {
        return Err(format!("{}: prefix match ends at {len}, not a segment boundary", ctx()));
    }
    if p.unprocessed() != &path[len..] {
        return Err(format!("{}: unprocessed() is {:?}, expected {:?}", ctx(), p.unprocessed(), &path[len..]));
    }
    let pat = &def.pats[pi];
    let mut got: Vec<(String, String)> = p.iter().map(|(k, v)| (k.to_string(), v.to_string())).collect();
    got.sort();
    let mut want: Vec<(String, String)> = spans.iter().enumerate().map(|(i, (a, b))| (format!("p{i}"), path[*a..*b].to_string())).collect();
    want.sort();
    if got != want {
        return Err(format!("{}: captured {:?}, the substrings that matched are {:?}", ctx(), got, want));
    }
    for (i, (a, b)) in spans.iter().enumerate() {
        if p.get(&format!("p{i}")) != Some(&path[*a..*b]) {
            return Err(format!("{}: get(p{i}) = {:?}, expected {:?}", ctx(), p.get(&format!("p{i}")), &path[*a..*b]));
        }
    }
    // static text + captures re-concatenate to the matched prefix; a path built from the values
    // matches the (first) pattern again and yields the values back
    if pi == 0 {
        let mut built = String::new();
        let vals: Vec<&str> = spans.iter().map(|(a, b)| &path[*a..*b]).collect();
        if !rd.resource_path_from_iter(&mut built, vals.iter()) {
            return Err(format!("{}: resource_path_from_iter refused {} values", ctx(), vals.len()));
        }
        if built != path[..len] {
            return Err(format!("{}: path built from the captured values is {:?}, the matched part was {:?}", ctx(), built, &path[..len]));
        }
        let mut p2 = Path::new(built.as_str());
        if !rd.capture_match_info(&mut p2) {
            return Err(format!("{}: built path {:?} does not match its own pattern", ctx(), built));
        }
        if def.model(built.as_bytes()).map(|m| m.0) == Some(0) {
            for (i, v) in vals.iter().enumerate() {
                // (greedy re-splitting of adjacent dynamic segments is deterministic: same values)
                if p2.get(&format!("p{i}")) != Some(*v) {
                    return Err(format!("{}: built path {:?} yields p{i}={:?}, expected {:?}", ctx(), built, p2.get(&format!("p{i}")), v));
                }
            }
        }
    }
    Ok(pat.n_dyn() > 0)
}

// ------------------------------------------------------------------------------------------
// cases
// ------------------------------------------------------------------------------------------

#[derive(Debug, Clone, Serialize, Deserialize)]
pub enum Case {
    /// one definition against all paths over the alphabet up to `max_len`
    AllPaths { def: Def, max_len: u8 },
    /// one definition against one path
    One { def: Def, path: String },
    /// one definition against paths derived from its own language (seeded perturbations)
    Derived { def: Def, sels: Vec<u16> },
    /// long path: `filler` bytes of static text in pattern and path, then the dynamic part
    Long { filler: u32, def: Def, sels: Vec<u16> },
    /// quoter: all strings over the alphabet with this prefix up to `max_len`
    QuoterAll { prefix: Vec<u8>, max_len: u8, protected: Vec<u8> },
    QuoterOne { input: Vec<u8>, protected: Vec<u8> },
}

const PATH_ALPHA: [u8; 7] = [b'/', b'a', b'b', b'1', b'-', b'v', b'.'];
const Q_ALPHA: [u8; 9] = [b'%', b'2', b'F', b'f', b'5', b'4', b'1', b'G', b'/'];

pub fn ref_requote(input: &[u8], protected: &[u8]) -> Option<Vec<u8>> {
    let hex = |c: u8| (c as char).to_digit(16).map(|d| d as u8);
    let mut out = Vec::with_capacity(input.len());
    let mut i = 0;
    let mut changed = false;
    while i < input.len() {
        if input[i] == b'%' && i + 2 < input.len() {
            if let (Some(h), Some(l)) = (hex(input[i + 1]), hex(input[i + 2])) {
                let v = (h << 4) | l;
                if !(v < 128 && protected.contains(&v)) {
                    out.push(v);
                    i += 3;
                    changed = true;
                    continue;
                }
            }
        }
        out.push(input[i]);
        i += 1;
    }
    if changed {
        Some(out)
    } else {
        None
    }
}

pub fn sample_value(kind: u8, sel: u16) -> String {
    let pick = |opts: &[&str]| opts[(sel as usize) % opts.len()].to_string();
    match kind {
        0 => pick(&["x", "abc", "a-b", "1.v", "%2F", "v1"]),
        1 => pick(&["0", "42", "007", "1234567890"]),
        2 => pick(&["a", "b", "abba", "bbbb"]),
        3 => pick(&["", "x", "a.b", "--"]),
        4 => pick(&["a", "bb"]),
        5 => pick(&["x", "a/b", "/", "a//b/", "v"]),
        6 => pick(&["a", "b", "ab", "bab"]),
        _ => pick(&["v", "v1", "v9"]),
    }
}

fn derive_path(p: &Pat, sels: &[u16], salt: usize) -> String {
    let mut s = String::new();
    let mut n = 0;
    for seg in &p.segs {
        match seg {
            Seg::Static(x) => s.push_str(x),
            Seg::Dyn(k) => {
                s.push_str(&sample_value(*k, sels[(n + salt) % sels.len()].wrapping_add(salt as u16)));
                n += 1;
            }
        }
    }
    if p.tail {
        s.push_str(["", "t", "t/u", "/", "a//"][(sels[(n + salt) % sels.len()] as usize) % 5]);
    }
    s
}

fn perturb(path: &str, sel: u16) -> String {
    let mut p = path.to_string();
    match sel % 9 {
        0 => {}
        1 => p.push('/'),
        2 => p.push_str("/x"),
        3 => p.push('x'),
        4 => {
            p.pop();
        }
        5 => p = p.replacen('/', "//", 1),
        6 => p.push_str("//"),
        7 => {
            if !p.is_empty() {
                p.remove(0);
            }
        }
        _ => p = p.to_ascii_uppercase(),
    }
    p
}

pub fn run_case(_cfg: &RunCfg, case: &Case) -> Verdict {
    match case {
        Case::One { def, path } => {
            let rd = def.build();
            match check(def, &rd, path) {
                Ok(nt) => Verdict::ok().nt(nt),
                Err(e) => Verdict::failed(e),
            }
        }
        Case::AllPaths { def, max_len } => {
            let rd = def.build();
            let mut v = Verdict::ok();
            let mut evals = 0u64;
            let mut nt = 0u64;
            let mut buf: Vec<u8> = vec![];
            let mut idx: Vec<usize> = vec![];
            loop {
                evals += 1;
                let path = std::str::from_utf8(&buf).unwrap();
                match check(def, &rd, path) {
                    Ok(true) => nt += 1,
                    Ok(false) => {}
                    Err(e) => {
                        v.fail = Some(e);
                        v.repro = serde_json::to_value(Case::One { def: def.clone(), path: path.to_string() }).ok();
                        break;
                    }
                }
                // next string in length-lexicographic order
                let mut i = idx.len();
                loop {
                    if i == 0 {
                        if idx.len() == *max_len as usize {
                            v.sub_evals = evals;
                            v.sub_nt = nt;
                            return v;
                        }
                        idx = vec![0; idx.len() + 1];
                        break;
                    }
                    i -= 1;
                    if idx[i] + 1 < PATH_ALPHA.len() {
                        idx[i] += 1;
                        for j in i + 1..idx.len() {
                            idx[j] = 0;
                        }
                        break;
                    }
                }
                buf.clear();
                buf.extend(idx.iter().map(|i| PATH_ALPHA[*i]));
            }
            v.sub_evals = evals;
            v.sub_nt = nt;
            v
        }
        Case::Derived { def, sels } => {
            let rd = def.build();
            let mut any_nt = false;
            for (pi, p) in def.pats.iter().enumerate() {
                for salt in 0..4usize {
                    let base = derive_path(p, sels, salt + pi);
                    for q in 0..9u16 {
                        let path = perturb(&base, q);
                        match check(def, &rd, &path) {
                            Ok(nt) => any_nt |= nt,
                            Err(e) => {
                                let mut v = Verdict::failed(e);
                                v.repro = serde_json::to_value(Case::One { def: def.clone(), path }).ok();
                                return v;
                            }
                        }
                    }
                }
            }
            Verdict::ok()
                .nt(any_nt)
                .class_if(def.pats.len() > 1, "pattern-list")
                .class_if(def.prefix, "prefix")
                .class_if(def.pats.iter().any(|p| p.tail), "tail")
                .class_if(def.pats.iter().any(|p| p.segs.iter().any(|s| matches!(s, Seg::Dyn(6 | 7)))), "user-capture-group-in-regex")
        }
        Case::Long { filler, def, sels } => {
            // put `filler` bytes of static text in front of every pattern and of the path
            let fill: String = std::iter::repeat_n("/fill", (*filler as usize) / 5).collect();
            let mut d2 = def.clone();
            for p in d2.pats.iter_mut() {
                match p.segs.first_mut() {
                    Some(Seg::Static(a)) => a.insert_str(0, &fill),
                    _ => p.segs.insert(0, Seg::Static(fill.clone())),
                }
            }
            let rd = d2.build();
            let mut any_nt = false;
            for salt in 0..3usize {
                let base = derive_path(&d2.pats[0], sels, salt);
                for q in [0u16, 1, 2] {
                    let mut path = perturb(&base, q);
                    if path.len() > 65_534 {
                        path.truncate(65_534);
                    }
                    match check(&d2, &rd, &path) {
                        Ok(nt) => any_nt |= nt,
                        Err(e) => {
                            let short = if e.len() > 600 { format!("{}…{}", &e[..300], &e[e.len() - 300..]) } else { e };
                            return Verdict::failed(format!("(long path, {} bytes, filler {filler}) {short}", path.len()));
                        }
                    }
                }
            }
            Verdict::ok().nt(any_nt && *filler > 60_000).class_if(*filler > 65_000, "capture-offsets-above-65000")
        }
        Case::QuoterOne { input, protected } => {
            let q = Quoter::new(b"", protected);
            let got = q.requote(input);
            let want = ref_requote(input, protected);
            if got != want {
                return Verdict::failed(format!(
                    "requote({:?}) with protected {:?} = {:?}, reference decoder gives {:?}",
                    String::from_utf8_lossy(input),
                    String::from_utf8_lossy(protected),
                    got.as_ref().map(|g| String::from_utf8_lossy(g).into_owned()),
                    want.as_ref().map(|g| String::from_utf8_lossy(g).into_owned())
                ));
            }
            Verdict::ok().nt(input.contains(&b'%'))
        }
        Case::QuoterAll { prefix, max_len, protected } => {
            let q = Quoter::new(b"", protected);
            let mut v = Verdict::ok();
            let mut evals = 0u64;
            let mut nt = 0u64;
            let d = *max_len as usize;
            let mut idx: Vec<usize> = vec![0; d - prefix.len()];
            let mut buf: Vec<u8> = Vec::with_capacity(d);
            // all strings prefix ++ w for |w| = d - |prefix|; shorter strings are covered because the
            // decoder is checked on every prefix of buf as well
            loop {
                buf.clear();
                buf.extend_from_slice(prefix);
                buf.extend(idx.iter().map(|i| Q_ALPHA[*i]));
                for l in prefix.len()..=buf.len() {
                    // (each proper prefix is visited several times; cheap)
                    if l < buf.len() && idx[l - prefix.len()..].iter().any(|i| *i != 0) {
                        continue;
                    }
                    let input = &buf[..l];
                    evals += 1;
                    if input.contains(&b'%') {
                        nt += 1;
                    }
                    if q.requote(input) != ref_requote(input, protected) {
                        v.fail = Some(format!(
                            "requote({:?}) with protected {:?} = {:?}, reference decoder gives {:?}",
                            String::from_utf8_lossy(input),
                            String::from_utf8_lossy(protected),
                            q.requote(input).map(|g| String::from_utf8_lossy(&g).into_owned()),
                            ref_requote(input, protected).map(|g| String::from_utf8_lossy(&g).into_owned())
                        ));
                        v.repro = serde_json::to_value(Case::QuoterOne { input: input.to_vec(), protected: protected.clone() }).ok();
                        v.sub_evals = evals;
                        v.sub_nt = nt;
                        return v;
                    }
                }
                let mut i = idx.len();
                loop {
                    if i == 0 {
                        v.sub_evals = evals;
                        v.sub_nt = nt;
                        return v;
                    }
                    i -= 1;
                    if idx[i] + 1 < Q_ALPHA.len() {
                        idx[i] += 1;
                        for j in i + 1..idx.len() {
                            idx[j] = 0;
                        }
                        break;
                    }
                }
            }
        }
    }
}

/// a fixed, seed-derived list of definitions for the exhaustive-path phase
fn sample_defs(cfg: &RunCfg, n: usize) -> Vec<Def> {
    use proptest::strategy::ValueTree;
    use proptest::test_runner::{Config, RngAlgorithm, TestRng, TestRunner};
    let mut seed = [0u8; 32];
    seed[..8].copy_from_slice(&cfg.seed.to_le_bytes());
    seed[8] = 0x10;
    let mut runner = TestRunner::new_with_rng(Config::default(), TestRng::from_seed(RngAlgorithm::ChaCha, &seed));
    let strat = def_strategy(true);
    let mut out = vec![
        // hand-picked anchors (docs examples and boundary shapes)
        Def { pats: vec![Pat { segs: vec![Seg::Static("/a".into())], tail: false }], prefix: true },
        Def { pats: vec![Pat { segs: vec![Seg::Static("/a/".into())], tail: false }], prefix: true },
        Def { pats: vec![Pat { segs: vec![], tail: false }], prefix: true },
        Def { pats: vec![Pat { segs: vec![Seg::Static("/a/".into()), Seg::Dyn(0)], tail: false }], prefix: true },
        Def { pats: vec![Pat { segs: vec![Seg::Static("/a/".into()), Seg::Dyn(0), Seg::Static("/".into())], tail: false }], prefix: true },
        Def { pats: vec![Pat { segs: vec![Seg::Static("/".into()), Seg::Dyn(6), Seg::Static("/".into()), Seg::Dyn(0)], tail: false }], prefix: false },
        Def { pats: vec![Pat { segs: vec![Seg::Static("/".into()), Seg::Dyn(7), Seg::Static("/".into()), Seg::Dyn(0)], tail: false }], prefix: false },
        Def { pats: vec![Pat { segs: vec![Seg::Static("/a/".into())], tail: true }], prefix: false },
        Def { pats: vec![Pat { segs: vec![Seg::Static("/a.b".into())], tail: false }], prefix: false },
    ];
    while out.len() < n {
        if let Ok(t) = strat.new_tree(&mut runner) {
            out.push(t.current());
        }
    }
    out
}

pub fn run(cfg: &RunCfg) -> Report {
    let mut rep = Report::new("C10");
    let max_len = cfg.tier.n(6, 7) as u8;
    let n_defs = cfg.cases(160, 400) as usize;
    rep.rule = format!(
        "patterns from the grammar (static text over /ab-.v1, {{name}}, {{name:regex}} with regex in \\d+ [ab]+ [^/]* a|bb .+ (a|b)+ v(\\d)?, optional {{tail}}*, single or list of 2-3, new or prefix); phase all-paths: {n_defs} definitions x ALL paths over the alphabet /ab1-v. up to length {max_len} (exhaustive per definition); phase derived: paths sampled from the pattern's own language x 9 perturbations; phase long: up to 65 534-byte paths with the dynamic part at the far end; phase quoter-all: ALL strings over %2Ff541G/ up to length 7 for three protected sets (exhaustive); phase quoter-random: random bytes; \
         non-trivial = a match involving at least one dynamic segment; for the quoter an input containing '%'; enumerated members are distinct by construction"
    );
    rep.assumptions = vec![
        "reference matcher: backtracking, leftmost, greedy, alternation in order, anchored at the start, ending `$` (new) / `(/|$)` (prefix) / none (tail) — the documented construction".into(),
        "only regexes from the menu are used so that the reference matcher is exact; patterns the docs call meaningless (tail in a prefix, unnamed tail, duplicate names, more than 16 segments) are not generated".into(),
        "paths are at most 65 534 bytes (the http::Uri limit that feeds Path<Url>)".into(),
        "reference percent-decoder: left to right; %XY with two hex digits and a non-protected value becomes one byte, everything else is copied; None iff nothing was decoded".into(),
    ];
    runner::replay_pinned(&mut rep, cfg, &replay);
    runner::replay_regress(&mut rep, cfg, &replay);
    let defs = sample_defs(cfg, n_defs);
    let cases: Vec<Case> = defs.into_iter().map(|def| Case::AllPaths { def, max_len }).collect();
    enumerate(&mut rep, cfg, "all-paths", true, cases, |c| run_case(cfg, c));
    explore(
        &mut rep,
        cfg,
        "derived",
        cfg.cases(60_000, 1_200_000),
        || (def_strategy(true), proptest::collection::vec(any::<u16>(), 6)).prop_map(|(def, sels)| Case::Derived { def, sels }),
        |c| run_case(cfg, c),
    );
    explore(
        &mut rep,
        cfg,
        "long",
        cfg.cases(400, 8_000),
        || {
            (
                prop_oneof![1 => 1000u32..60_000, 3 => 60_000u32..65_600],
                def_strategy(false).prop_map(|mut d| {
                    d.pats.truncate(1);
                    d
                }),
                proptest::collection::vec(any::<u16>(), 6),
            )
                .prop_map(|(filler, def, sels)| Case::Long { filler, def, sels })
        },
        |c| run_case(cfg, c),
    );
    let mut qcases = vec![];
    for protected in [b"%/+".to_vec(), b"/".to_vec(), vec![]] {
        for a in Q_ALPHA {
            for b in Q_ALPHA {
                qcases.push(Case::QuoterAll { prefix: vec![a, b], max_len: 7, protected: protected.clone() });
            }
        }
    }
    enumerate(&mut rep, cfg, "quoter-all", true, qcases, |c| run_case(cfg, c));
    explore(
        &mut rep,
        cfg,
        "quoter-random",
        cfg.cases(300_000, 6_000_000),
        || {
            (
                proptest::collection::vec(prop_oneof![3 => Just(b'%'), 3 => proptest::sample::select(b"0123456789abcdefABCDEF".to_vec()), 2 => any::<u8>()], 0..40),
                proptest::sample::select(vec![b"%/+".to_vec(), b"/".to_vec(), vec![], b"%".to_vec(), b"AZaz09".to_vec()]),
            )
                .prop_map(|(input, protected)| Case::QuoterOne { input, protected })
        },
        |c| run_case(cfg, c),
    );
    if rep.samples.len() < 2 {
        rep.samples.push(serde_json::json!({"phase": "all-paths", "case": {"patterns": ["/a/{p0}/"], "prefix": true, "paths": "all strings over /ab1-v. up to the length bound"}}));
    }
    rep
}

pub fn replay(cfg: &RunCfg, _phase: &str, case: &serde_json::Value) -> Result<Verdict, String> {
    let c: Case = runner::from_json(case)?;
    Ok(run_case(cfg, &c))
}
