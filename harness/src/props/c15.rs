//! C15 — multipart parsing is exact, segmentation-independent and always terminates.
//!
//! Bodies are rendered from an abstract field list (ground truth by construction), delivered
//! through a scripted chunk stream (every single cut for short bodies, random multi-cuts, 1-byte
//! chunks, `Pending` between chunks) to the public `Multipart` stream, on a wake-driven executor
//! under a virtual deadline. Valid bodies must yield exactly the generator's fields for every
//! chunking; truncated bodies (every truncation offset for short bodies) and malformed bodies
//! must end in an error — never a hang, never `Ok` with missing/merged fields; the stream must
//! never be pulled more than the buffer limit plus one chunk ahead of what was consumed.

use std::{cell::RefCell, rc::Rc};

use actix_multipart::{Multipart, MultipartConfig};
use actix_web::{http::header, FromRequest as _};
use bytes::Bytes;
use futures_util::StreamExt as _;
use proptest::prelude::*;
use serde::{Deserialize, Serialize};

use crate::{
    runner::{self, explore, Report, RunCfg, Verdict},
    streams::{self, RunEnd, ScriptedStream, StreamEnd},
    util,
};

#[derive(Debug, Clone, Serialize, Deserialize, PartialEq, Eq, Hash)]
pub enum Content {
    Empty,
    /// pseudo-random bytes without CR
    Binary(u32, u16),
    /// arbitrary bytes (may contain CR / LF / dashes anywhere)
    Wild(u32, u16),
    EndsCr(u16),
    EndsCrLf(u16),
    EndsDashes(u16),
    /// contains CRLF "--" followed by something that is not the boundary
    CrLfDashOther(u16),
    /// contains CRLF "--" + a strict prefix of the boundary + other text
    BoundaryPrefix(u16),
    /// contains "--boundary" in the middle of a line (no preceding CRLF)
    BoundaryMidLine(u16),
    /// contains a bare CR followed by "--boundary" (legal content: the delimiter is CRLF "--" boundary)
    BareCrBoundary(u16),
    /// one long line
    LongLine(u32),
}

#[derive(Debug, Clone, Serialize, Deserialize, PartialEq, Eq, Hash)]
pub struct FieldSpec {
    pub name: String,
    pub filename: Option<String>,
    pub ctype: Option<u8>,
    pub extra_header: bool,
    /// further `X-Custom: v2`, `v3`, ... lines after the first (a repeated header name)
    #[serde(default)]
    pub extra_repeat: u8,
    pub with_len: bool,
    pub content: Content,
}

#[derive(Debug, Clone, Serialize, Deserialize, PartialEq, Eq, Hash)]
pub enum Chunking {
    Whole,
    OneByte,
    Cuts(Vec<u16>),
    /// every single cut position (short bodies)
    EverySingleCut,
}

#[derive(Debug, Clone, Serialize, Deserialize, PartialEq, Eq, Hash)]
pub enum Mangle {
    None,
    /// truncate at a selected offset
    Truncate(u16),
    /// every truncation offset (short bodies)
    EveryTruncation,
    GarbageAfterBoundary,
    HeaderBlockUnterminated,
    NestedMultipart,
    BadFieldLength,
    /// the transport fails after a selected prefix
    StreamError(u16),
}

#[derive(Debug, Clone, Serialize, Deserialize)]
pub struct Case {
    pub boundary: String,
    pub quoted: bool,
    pub form_data: bool,
    pub preamble: Option<String>,
    pub epilogue: Option<String>,
    pub fields: Vec<FieldSpec>,
    pub chunking: Chunking,
    pub pendings: Vec<u8>,
    pub mangle: Mangle,
    /// 0 = default via `Multipart::new`; otherwise set through `MultipartConfig`
    pub buffer_limit: u32,
}

const CTYPES: [&str; 3] = ["text/plain", "application/octet-stream", "text/plain; charset=utf-8"];

fn content_bytes(c: &Content, boundary: &str) -> Vec<u8> {
    let rnd = |seed: u16, n: usize, no_cr: bool| -> Vec<u8> {
        (0..n)
            .map(|i| {
                let b = util::data_byte(seed as u64 + 77, i as u64);
                if no_cr && b == b'\r' {
                    b'_'
                } else {
                    b
                }
            })
            .collect()
    };
    let text = |seed: u16, n: usize| -> Vec<u8> { (0..n).map(|i| b'a' + util::data_byte(seed as u64, i as u64) % 26).collect() };
    let mut v = match c {
        Content::Empty => vec![],
        Content::Binary(n, s) => rnd(*s, *n as usize, true),
        Content::Wild(n, s) => {
            // bytes from a small alphabet rich in CR / LF / '-'
            (0..*n as usize)
                .map(|i| b"\r\n-ab-\r\n-x"[(util::data_byte(*s as u64, i as u64) % 10) as usize])
                .collect()
        }
        Content::EndsCr(s) => [text(*s, 5), b"\r".to_vec()].concat(),
        Content::EndsCrLf(s) => [text(*s, 5), b"\r\n".to_vec()].concat(),
        Content::EndsDashes(s) => [text(*s, 5), b"--".to_vec()].concat(),
        Content::CrLfDashOther(s) => [text(*s, 4), b"\r\n--".to_vec(), b"zz-not-it".to_vec(), b"\r\nmore".to_vec()].concat(),
        Content::BoundaryPrefix(s) => {
            let p = &boundary.as_bytes()[..boundary.len() - 1];
            [text(*s, 4), b"\r\n--".to_vec(), p.to_vec(), b"\r\nrest".to_vec()].concat()
        }
        Content::BoundaryMidLine(s) => [text(*s, 4), b"--".to_vec(), boundary.as_bytes().to_vec(), b"\r\ntail".to_vec()].concat(),
        Content::BareCrBoundary(s) => [text(*s, 2), b"\r--".to_vec(), boundary.as_bytes().to_vec(), b"\r\nmore".to_vec()].concat(),
        Content::LongLine(n) => vec![b'L'; *n as usize],
    };
    // content of a valid body never contains the delimiter itself (RFC 2046): break accidental ones
    let delim = [b"\r\n--".as_slice(), boundary.as_bytes()].concat();
    while let Some(p) = util::find_sub(&v, &delim) {
        v[p + 2] = b'+';
    }
    v
}

struct Rendered {
    body: Vec<u8>,
    /// per field: (content start, content end)
    spans: Vec<(usize, usize)>,
    /// offset right after the final `--boundary--`
    complete_from: usize,
}

fn render(case: &Case) -> Rendered {
    let b = &case.boundary;
    let mut body = vec![];
    if let Some(p) = &case.preamble {
        body.extend_from_slice(p.as_bytes());
        body.extend_from_slice(b"\r\n");
    }
    let mut spans = vec![];
    for (i, f) in case.fields.iter().enumerate() {
        body.extend_from_slice(format!("--{b}").as_bytes());
        if i == 1 && case.mangle == Mangle::GarbageAfterBoundary {
            body.extend_from_slice(b" garbage");
        }
        body.extend_from_slice(b"\r\n");
        let content = content_bytes(&f.content, b);
        let mut cd = format!("Content-Disposition: form-data; name=\"{}\"", f.name);
        if let Some(fname) = &f.filename {
            cd.push_str(&format!("; filename=\"{fname}\""));
        }
        body.extend_from_slice(cd.as_bytes());
        body.extend_from_slice(b"\r\n");
        if i == 0 && case.mangle == Mangle::NestedMultipart {
            body.extend_from_slice(b"Content-Type: multipart/mixed; boundary=inner\r\n");
        } else if let Some(c) = f.ctype {
            body.extend_from_slice(format!("Content-Type: {}\r\n", CTYPES[c as usize % 3]).as_bytes());
        }
        if f.extra_header {
            body.extend_from_slice(b"X-Custom: v1\r\n");
            for k in 0..f.extra_repeat {
                body.extend_from_slice(format!("x-custom: v{}\r\n", k as u32 + 2).as_bytes());
            }
        }
        if i == 0 && case.mangle == Mangle::BadFieldLength {
            body.extend_from_slice(b"Content-Length: 12abc\r\n");
        } else if f.with_len {
            body.extend_from_slice(format!("Content-Length: {}\r\n", content.len()).as_bytes());
        }
        if i == 0 && case.mangle == Mangle::HeaderBlockUnterminated {
            // no empty line: the content runs on as if it were header lines
            body.extend_from_slice(b"X-Run-On: ");
        } else {
            body.extend_from_slice(b"\r\n");
        }
        let s = body.len();
        body.extend_from_slice(&content);
        spans.push((s, body.len()));
        body.extend_from_slice(b"\r\n");
    }
    body.extend_from_slice(format!("--{b}--").as_bytes());
    let complete_from = body.len();
    body.extend_from_slice(b"\r\n");
    if let Some(e) = &case.epilogue {
        body.extend_from_slice(e.as_bytes());
    }
    Rendered { body, spans, complete_from }
}

#[derive(Debug, Clone, PartialEq)]
struct FieldOut {
    name: String,
    filename: Option<String>,
    ctype: Option<String>,
    extra: Vec<String>,
    content: Vec<u8>,
    clean: bool,
}

#[derive(Debug, Clone, PartialEq)]
enum Terminal {
    Ok,
    Err(String),
    Hang,
    Panic(String),
}

struct RunOut {
    fields: Vec<FieldOut>,
    terminal: Terminal,
    max_ahead: usize,
    max_chunk: usize,
}

fn run_body(case: &Case, body: &[u8], chunks: Vec<Bytes>, end: StreamEnd, spans: &[(usize, usize)]) -> RunOut {
    let max_chunk = chunks.iter().map(|c| c.len()).max().unwrap_or(0);
    let pend: Vec<u8> = (0..chunks.len() + 1).map(|i| case.pendings.get(i % case.pendings.len().max(1)).copied().unwrap_or(0)).collect();
    let (stream, stats) = ScriptedStream::new(chunks, pend, end);
    let ct = if case.quoted {
        format!("multipart/{}; boundary=\"{}\"", if case.form_data { "form-data" } else { "mixed" }, case.boundary)
    } else {
        format!("multipart/{}; boundary={}", if case.form_data { "form-data" } else { "mixed" }, case.boundary)
    };
    let limit = case.buffer_limit;
    let out = Rc::new(RefCell::new(Vec::<FieldOut>::new()));
    let out2 = out.clone();
    let stats2 = stats.clone();
    let spans: Vec<(usize, usize)> = spans.to_vec();
    let _ = body;
    let fut = async move {
        let mut mp = if limit == 0 {
            let mut headers = actix_web::http::header::HeaderMap::new();
            headers.insert(header::CONTENT_TYPE, header::HeaderValue::from_str(&ct).unwrap());
            Multipart::new(&headers, stream)
        } else {
            let req = actix_web::test::TestRequest::default()
                .insert_header((header::CONTENT_TYPE, ct))
                .app_data(MultipartConfig::default().buffer_limit(limit as usize))
                .to_http_request();
            let boxed: std::pin::Pin<Box<dyn futures_core::Stream<Item = Result<Bytes, actix_web::error::PayloadError>>>> = Box::pin(stream);
            let mut pl = actix_web::dev::Payload::Stream { payload: boxed };
            match Multipart::from_request(&req, &mut pl).await {
                Ok(m) => m,
                Err(e) => return Terminal::Err(format!("{e:?}")),
            }
        };
        let mut idx = 0usize;
        let dbg = std::env::var_os("VP_DEBUG").is_some();
        loop {
            let item = mp.next().await;
            if dbg {
                eprintln!("mp.next -> {:?}", item.as_ref().map(|r| r.as_ref().map(|_| "field").map_err(|e| format!("{e:?}"))));
            }
            match item {
                None => return Terminal::Ok,
                Some(Err(e)) => return Terminal::Err(format!("{e:?}")),
                Some(Ok(mut field)) => {
                    let cd = field.content_disposition().cloned();
                    let fo = FieldOut {
                        name: field.name().unwrap_or("").to_string(),
                        filename: cd.as_ref().and_then(|c| c.get_filename().map(|s| s.to_string())),
                        ctype: field.content_type().map(|m| m.to_string()),
                        extra: field.headers().get_all("x-custom").map(|v| String::from_utf8_lossy(v.as_bytes()).into_owned()).collect(),
                        content: vec![],
                        clean: false,
                    };
                    out2.borrow_mut().push(fo);
                    loop {
                        let ch = field.next().await;
                        if dbg {
                            eprintln!("  field.next -> {:?}", ch.as_ref().map(|r| r.as_ref().map(|b| util::show_bytes(b, 40)).map_err(|e| format!("{e:?}"))));
                        }
                        match ch {
                            None => {
                                out2.borrow_mut().last_mut().unwrap().clean = true;
                                if let Some(sp) = spans.get(idx) {
                                    let mut st = stats2.borrow_mut();
                                    st.consumed_lb = st.consumed_lb.max(sp.1);
                                }
                                break;
                            }
                            Some(Ok(b)) => {
                                let mut o = out2.borrow_mut();
                                let f = o.last_mut().unwrap();
                                f.content.extend_from_slice(&b);
                                if let Some(sp) = spans.get(idx) {
                                    let mut st = stats2.borrow_mut();
                                    let pos = (sp.0 + f.content.len()).min(sp.1);
                                    st.consumed_lb = st.consumed_lb.max(pos);
                                }
                            }
                            Some(Err(e)) => return Terminal::Err(format!("field: {e:?}")),
                        }
                    }
                    idx += 1;
                }
            }
        }
    };
    let terminal = match streams::run_local(60_000, fut) {
        RunEnd::Done(t) => t,
        RunEnd::Hang => Terminal::Hang,
        RunEnd::Panicked(p) => Terminal::Panic(p),
    };
    let fields = out.borrow().clone();
    let max_ahead = stats.borrow().max_ahead;
    RunOut { fields, terminal, max_ahead, max_chunk }
}

fn chunkings(case: &Case, len: usize) -> Vec<Vec<usize>> {
    match &case.chunking {
        Chunking::Whole => vec![vec![]],
        Chunking::OneByte => vec![(1..len).collect()],
        Chunking::Cuts(c) => vec![c.iter().map(|x| util::pick_idx(*x, len + 1)).collect()],
        Chunking::EverySingleCut => {
            let mut v: Vec<Vec<usize>> = vec![vec![]];
            if len <= 700 {
                v.extend((1..len).map(|c| vec![c]));
            }
            v
        }
    }
}

fn expected_fields(case: &Case) -> Vec<FieldOut> {
    case.fields
        .iter()
        .map(|f| FieldOut {
            name: f.name.clone(),
            filename: f.filename.clone(),
            ctype: f.ctype.map(|c| CTYPES[c as usize % 3].parse::<mime::Mime>().unwrap().to_string()),
            extra: if f.extra_header { (0..=f.extra_repeat as u32).map(|k| format!("v{}", k + 1)).collect() } else { vec![] },
            content: content_bytes(&f.content, &case.boundary),
            clean: true,
        })
        .collect()
}

pub fn run_case(cfg: &RunCfg, case: &Case) -> Verdict {
    let r = render(case);
    let want = expected_fields(case);
    let bare_cr = case.fields.iter().any(|f| {
        let c = content_bytes(&f.content, &case.boundary);
        util::find_sub(&c, &[b"\r--".as_slice(), case.boundary.as_bytes()].concat()).is_some()
    });
    let kf_bare = !cfg.strict && cfg.kf.active("C15", "bare-cr-boundary-ends-field");
    if bare_cr && kf_bare {
        return Verdict::excluded("bare-cr-boundary-ends-field");
    }
    let limit = if case.buffer_limit == 0 { 65_536 } else { case.buffer_limit as usize };
    let mut v = Verdict::ok()
        .class_if(case.fields.iter().any(|f| !matches!(f.content, Content::Empty | Content::Binary(..) | Content::LongLine(_))), "content-with-cr-lf-dash-lookalikes")
        .class_if(bare_cr, "bare-cr-boundary-in-content")
        .class_if(case.fields.iter().any(|f| f.with_len), "per-field-content-length")
        .class_if(case.buffer_limit != 0, "custom-buffer-limit")
        .class_if(case.fields.is_empty(), "no-fields");
    // which bodies to run: (body bytes, stream end, expectation)
    #[derive(Clone, Copy, PartialEq)]
    enum Expect {
        Exact,
        MustError,
    }
    let mut variants: Vec<(Vec<u8>, StreamEnd, Expect, String)> = vec![];
    match &case.mangle {
        Mangle::None => variants.push((r.body.clone(), StreamEnd::Eof, Expect::Exact, "valid".into())),
        Mangle::Truncate(sel) => {
            let k = util::pick_idx(*sel, r.complete_from);
            variants.push((r.body[..k].to_vec(), StreamEnd::Eof, Expect::MustError, format!("truncated at {k}")));
        }
        Mangle::EveryTruncation => {
            if r.body.len() <= 700 {
                for k in 0..r.complete_from {
                    variants.push((r.body[..k].to_vec(), StreamEnd::Eof, Expect::MustError, format!("truncated at {k}")));
                }
                for k in r.complete_from..=r.body.len() {
                    // a body that consists of nothing but the close delimiter is only recognised
                    // with its line end (it is read as a line while looking for the first boundary)
                    if case.fields.is_empty() && k < r.complete_from + 2 {
                        continue;
                    }
                    // (a lone CR after the close delimiter is neither a line end nor an epilogue
                    // line; either outcome is acceptable)
                    if k == r.complete_from + 1 {
                        continue;
                    }
                    variants.push((r.body[..k].to_vec(), StreamEnd::Eof, Expect::Exact, format!("cut at {k} (after the final boundary)")));
                }
            } else {
                variants.push((r.body.clone(), StreamEnd::Eof, Expect::Exact, "valid".into()));
            }
        }
        Mangle::StreamError(sel) => {
            let k = util::pick_idx(*sel, r.complete_from);
            variants.push((r.body[..k].to_vec(), StreamEnd::Error, Expect::MustError, format!("transport error after {k} bytes")));
        }
        Mangle::GarbageAfterBoundary | Mangle::HeaderBlockUnterminated | Mangle::NestedMultipart | Mangle::BadFieldLength => {
            // (text after the *first* boundary string makes that line preamble, which is legal;
            // the garbage is therefore put on the delimiter between field 0 and field 1)
            if case.fields.is_empty() || (case.mangle == Mangle::GarbageAfterBoundary && case.fields.len() < 2) {
                variants.push((r.body.clone(), StreamEnd::Eof, Expect::Exact, "valid (no field to mangle)".into()));
            } else {
                variants.push((r.body.clone(), StreamEnd::Eof, Expect::MustError, format!("{:?}", case.mangle)));
            }
        }
    }
    let mut nt = !matches!(case.mangle, Mangle::None);
    let mut evals = 0u64;
    for (body, end, expect, what) in variants {
        let mut reference: Option<(Vec<FieldOut>, bool)> = None;
        for cuts in chunkings(case, body.len()) {
            evals += 1;
            if cuts.iter().any(|c| {
                // a cut inside CRLF "--" boundary
                let d = [b"\r\n--".as_slice(), case.boundary.as_bytes()].concat();
                let mut from = 0;
                let mut hit = false;
                while let Some(p) = util::find_sub(&body[from..], &d) {
                    let a = from + p;
                    if *c > a && *c < a + d.len() {
                        hit = true;
                    }
                    from = a + 1;
                }
                hit
            }) {
                nt = true;
            }
            let chunks = streams::split_at(&body, &cuts);
            let out = run_body(case, &body, chunks, end, &r.spans);
            let ctx = || format!("[{what}; cuts {:?}; boundary {:?}; body {}]", &cuts[..cuts.len().min(8)], case.boundary, util::show_bytes(&body, 300));
            match &out.terminal {
                Terminal::Panic(p) => return v.fail_with(format!("panic: {p} {}", ctx())),
                Terminal::Hang => {
                    return v.fail_with(format!(
                        "the parser never terminated: Pending with nothing left to wake it after the input ended ({} fields delivered so far) {}",
                        out.fields.len(),
                        ctx()
                    ))
                }
                _ => {}
            }
            let clean: Vec<FieldOut> = out.fields.iter().filter(|f| f.clean).cloned().collect();
            match expect {
                Expect::Exact => {
                    if out.terminal != Terminal::Ok || out.fields != want {
                        return v.fail_with(format!(
                            "valid body: delivered {} fields, terminal {:?}; first difference: {} {}",
                            out.fields.len(),
                            out.terminal,
                            first_diff(&out.fields, &want),
                            ctx()
                        ));
                    }
                }
                Expect::MustError => {
                    if out.terminal == Terminal::Ok {
                        return v.fail_with(format!(
                            "malformed/truncated body was accepted as complete with {} fields (the full body has {}) {}",
                            out.fields.len(),
                            want.len(),
                            ctx()
                        ));
                    }
                    // whatever ended cleanly must be a prefix of the true field list
                    if clean.len() > want.len() || clean.iter().zip(want.iter()).any(|(a, b)| a != b) {
                        // a mangled first field is not in the ground truth
                        if !matches!(case.mangle, Mangle::HeaderBlockUnterminated | Mangle::BadFieldLength | Mangle::NestedMultipart | Mangle::GarbageAfterBoundary) {
                            return v.fail_with(format!(
                                "a field was delivered as complete that is not a field of the body: {} {}",
                                first_diff(&clean, &want),
                                ctx()
                            ));
                        }
                    }
                }
            }
            // same result for every chunking of the same bytes
            let ok = out.terminal == Terminal::Ok;
            match &reference {
                None => reference = Some((clean, ok)),
                Some((rf, rok)) => {
                    if *rok != ok || (body.len() <= limit && *rf != clean) {
                        return v.fail_with(format!(
                            "result depends on the chunking: whole -> {} clean fields, ok={rok}; this chunking -> {} clean fields, ok={ok} {}",
                            rf.len(),
                            clean.len(),
                            ctx()
                        ));
                    }
                }
            }
            // bounded buffering
            let bound = limit + out.max_chunk + 1024;
            if out.max_ahead > bound && expect == Expect::Exact {
                return v.fail_with(format!(
                    "the chunk stream was pulled {} bytes ahead of what had been consumed (buffer limit {limit}, largest chunk {}) {}",
                    out.max_ahead,
                    out.max_chunk,
                    ctx()
                ));
            }
        }
    }
    v.sub_evals = evals;
    v.nt(nt || case.fields.iter().any(|f| !matches!(f.content, Content::Empty | Content::Binary(..) | Content::LongLine(_))))
}

fn first_diff(got: &[FieldOut], want: &[FieldOut]) -> String {
    for (i, (a, b)) in got.iter().zip(want.iter()).enumerate() {
        if a != b {
            return format!(
                "field {i}: got name {:?} filename {:?} type {:?} clean {} content {:?} ({} bytes); expected name {:?} filename {:?} type {:?} content {:?} ({} bytes)",
                a.name,
                a.filename,
                a.ctype,
                a.clean,
                util::show_bytes(&a.content, 60),
                a.content.len(),
                b.name,
                b.filename,
                b.ctype,
                util::show_bytes(&b.content, 60),
                b.content.len()
            );
        }
    }
    format!("{} fields delivered, {} expected", got.len(), want.len())
}

fn boundary_strategy() -> impl Strategy<Value = (String, bool)> {
    prop_oneof![
        4 => (crate::gen::from_chars("abcXYZ0189-_.", 1, 12), any::<bool>()),
        2 => (crate::gen::from_chars("abcXYZ0189-_.'()+,/:=?", 1, 40), Just(true)),
        1 => (crate::gen::from_chars("abcdefghijklmnopqrstuvwxyz0123456789", 60, 70), any::<bool>()),
        1 => Just(("-".to_string(), true)),
        1 => Just(("--".to_string(), true)),
    ]
    .prop_map(|(b, q)| {
        let needs_quote = b.chars().any(|c| !(c.is_ascii_alphanumeric() || "-_.".contains(c)));
        (b, q || needs_quote)
    })
}

fn content_strategy(big: bool) -> impl Strategy<Value = Content> {
    prop_oneof![
        2 => Just(Content::Empty),
        3 => (0u32..60, any::<u16>()).prop_map(|(n, s)| Content::Binary(n, s)),
        3 => (1u32..80, any::<u16>()).prop_map(|(n, s)| Content::Wild(n, s)),
        1 => any::<u16>().prop_map(Content::EndsCr),
        1 => any::<u16>().prop_map(Content::EndsCrLf),
        1 => any::<u16>().prop_map(Content::EndsDashes),
        1 => any::<u16>().prop_map(Content::CrLfDashOther),
        1 => any::<u16>().prop_map(Content::BoundaryPrefix),
        1 => any::<u16>().prop_map(Content::BoundaryMidLine),
        1 => any::<u16>().prop_map(Content::BareCrBoundary),
        1 => if big { (60_000u32..200_000).prop_map(Content::LongLine).boxed() } else { (100u32..300).prop_map(Content::LongLine).boxed() },
        1 => if big { (1000u32..100_000, any::<u16>()).prop_map(|(n, s)| Content::Wild(n, s)).boxed() } else { (80u32..200, any::<u16>()).prop_map(|(n, s)| Content::Wild(n, s)).boxed() },
    ]
}

fn field_strategy(big: bool) -> impl Strategy<Value = FieldSpec> {
    (
        crate::gen::from_chars("abcxyz019_", 1, 10),
        proptest::option::weighted(0.3, crate::gen::from_chars("abc.txt-019 ", 1, 12).prop_map(|s| s.trim().to_string()).prop_filter("non-empty", |s| !s.is_empty())),
        proptest::option::weighted(0.5, 0u8..3),
        proptest::bool::weighted(0.3),
        prop_oneof![3 => Just(0u8), 1 => 1u8..4],
        proptest::bool::weighted(0.25),
        content_strategy(big),
    )
        .prop_map(|(name, filename, ctype, extra_header, extra_repeat, with_len, content)| FieldSpec { name, filename, ctype, extra_header, extra_repeat, with_len, content })
}

fn case_strategy(kind: u8) -> impl Strategy<Value = Case> {
    // kind 0: short bodies, every single cut; 1: short bodies, every truncation; 2: general
    (
        boundary_strategy(),
        proptest::bool::weighted(0.8),
        proptest::option::weighted(0.3, Just("this is the preamble".to_string())),
        proptest::option::weighted(0.3, Just("epilogue text\r\n".to_string())),
        proptest::collection::vec(field_strategy(kind == 2), if kind == 2 { 0..6 } else { 0..3 }),
        proptest::collection::vec(any::<u16>(), 0..8),
        proptest::collection::vec(0u8..3, 1..5),
        any::<u16>(),
        0u8..12,
        prop_oneof![3 => Just(0u32), 1 => Just(256u32), 1 => Just(4096u32), 1 => Just(70_000u32)],
    )
        .prop_map(move |((boundary, quoted), form_data, preamble, epilogue, fields, cuts, pendings, sel, m, buffer_limit)| {
            let (chunking, mangle) = match kind {
                0 => (Chunking::EverySingleCut, Mangle::None),
                1 => (if m % 2 == 0 { Chunking::Whole } else { Chunking::Cuts(cuts.clone()) }, Mangle::EveryTruncation),
                _ => (
                    match m % 4 {
                        0 => Chunking::Whole,
                        1 => Chunking::OneByte,
                        _ => Chunking::Cuts(cuts.clone()),
                    },
                    match m {
                        0..=4 => Mangle::None,
                        5 | 6 => Mangle::Truncate(sel),
                        7 => Mangle::GarbageAfterBoundary,
                        8 => Mangle::HeaderBlockUnterminated,
                        9 => Mangle::NestedMultipart,
                        10 => Mangle::BadFieldLength,
                        _ => Mangle::StreamError(sel),
                    },
                ),
            };
            let mut c = Case { boundary, quoted, form_data, preamble, epilogue, fields, chunking, pendings, mangle, buffer_limit: if kind == 2 { buffer_limit } else { 0 } };
            // lines longer than the buffer limit cannot be parsed as header/boundary lines, but
            // content may be any length; with tiny limits keep header blocks within the limit
            if c.buffer_limit == 256 {
                for f in c.fields.iter_mut() {
                    f.filename = None;
                    f.extra_header = false;
                }
                if c.boundary.len() > 40 {
                    c.boundary.truncate(40);
                }
            }
            // the run-on header block must not be terminated by the content's own CR/LF bytes
            if c.mangle == Mangle::HeaderBlockUnterminated {
                if let Some(f) = c.fields.first_mut() {
                    f.content = Content::LongLine(40);
                }
                // ... nor may a delimiter line read as a header line ("--x: y")
                c.boundary = c.boundary.replace(':', "_");
            }
            // the one-byte chunking of a huge body is slow and adds nothing
            if matches!(c.chunking, Chunking::OneByte) {
                for f in c.fields.iter_mut() {
                    if let Content::LongLine(n) | Content::Wild(n, _) = &mut f.content {
                        *n = (*n).min(3000);
                    }
                }
            }
            c
        })
}

pub fn run(cfg: &RunCfg) -> Report {
    let mut rep = Report::new("C15");
    rep.rule = "bodies rendered from an abstract field list: boundary of 1-70 bchars (quoted or not, incl. '-' and '--'), 0-5 fields with name / filename / content type / extra header (optionally repeated 2-4 times with different values) / exact per-field Content-Length, contents empty / binary / rich in CR LF '-' / ending in CR, CRLF, '--' / containing CRLF-- + other text, CRLF-- + a strict boundary prefix, the boundary in mid-line, a bare CR + -- + boundary / one long line up to 200 KB, optional preamble and epilogue, form-data or mixed; phase cuts: short bodies delivered whole and with EVERY single cut position; phase truncation: short bodies truncated at EVERY offset (error expected before the final boundary, exact result after it); phase general: whole / 1-byte / random multi-cuts with Pending patterns, buffer limits 256/4096/65536/70000, malformed classes (garbage after the boundary, unterminated header block, nested multipart, non-numeric field length, transport error); \
                non-trivial = a cut inside CRLF--boundary, or content with CR/LF/dash look-alikes, or a truncated/malformed body; distinct by hash of the case; evaluations count every (body variant, chunking) run"
        .into();
    rep.assumptions = vec![
        "valid bodies never contain CRLF--boundary inside content (RFC 2046) and never use transport padding after a boundary".into(),
        "a lying per-field Content-Length is outside the domain (only exact lengths are generated); a non-numeric one is a malformed class".into(),
        "chunking independence of the delivered field contents is demanded for bodies up to the buffer limit; the Ok/error outcome for all".into(),
        "buffering bound: bytes pulled from the chunk stream minus the body offset known to be consumed <= buffer limit + largest chunk + 1 KiB".into(),
    ];
    runner::replay_pinned(&mut rep, cfg, &replay);
    runner::replay_regress(&mut rep, cfg, &replay);
    explore_multi(&mut rep, cfg, "cuts", cfg.cases(3_000, 60_000), 0);
    explore_multi(&mut rep, cfg, "truncation", cfg.cases(3_000, 60_000), 1);
    explore_multi(&mut rep, cfg, "general", cfg.cases(40_000, 800_000), 2);
    rep
}

fn explore_multi(rep: &mut Report, cfg: &RunCfg, phase: &str, n: u64, kind: u8) {
    let before = rep.evaluations;
    explore(rep, cfg, phase, n, move || case_strategy(kind), |c| run_case(cfg, c));
    let _ = before;
}

pub fn replay(cfg: &RunCfg, _phase: &str, case: &serde_json::Value) -> Result<Verdict, String> {
    let c: Case = runner::from_json(case)?;
    Ok(run_case(cfg, &c))
}
