#![no_main]
// C19 surface `WsStream`: first byte selects the delivery fragmentation, the rest is peer input.
// The oracle (no panic, no hang under the virtual deadline, bounded allocation) is inside
// `vp_core::props::c19::exercise`; libfuzzer-sys additionally aborts on any panic.
use libfuzzer_sys::fuzz_target;
use vp_core::props::c19::{exercise, split_fuzz_input, Target};

fuzz_target!(|data: &[u8]| {
    let (frags, body) = split_fuzz_input(data);
    if let Err(e) = exercise(Target::WsStream, body, &frags) {
        panic!("C19 violation: {e}");
    }
});
