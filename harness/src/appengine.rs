//! E1 part 4 — any `ServiceFactory<Request>` (in particular an actix-web `App` adapted with
//! `map_config`, the composition `HttpServer` uses) served by the real `HttpService` / h1
//! dispatcher over scripted in-memory connections under the paused clock. Several connections can
//! be served by ONE service instance (one request pool, one set of app data).

use std::{fmt, rc::Rc, time::Duration};

use actix_http::{body::MessageBody, HttpService, KeepAlive, Protocol, Request, Response};
use actix_service::{IntoServiceFactory, Service, ServiceFactory};
use bytes::Bytes;

use crate::{
    h1engine::{ConnEnd, KaCfg, SrvCfg},
    simnet::{self, PeerOp},
    util,
};

/// Connection id made available to handlers through `HttpRequest::conn_data::<ConnId>()`.
#[derive(Debug, Clone, Copy, PartialEq, Eq)]
pub struct ConnId(pub u32);

pub struct ConnScript {
    pub id: u32,
    /// virtual ms after the start at which the connection is accepted
    pub start_ms: u32,
    pub input: Vec<u8>,
    pub peer_ops: Vec<PeerOp>,
    pub is_head: Vec<bool>,
}

#[derive(Debug)]
pub struct ConnOutcome {
    pub id: u32,
    pub out: Vec<u8>,
    pub out_log: Vec<(u64, usize)>,
    pub end: ConnEnd,
    pub closed: bool,
    pub alloc_peak: isize,
}

pub fn run_app<F, I, S, B>(cfg: SrvCfg, conns: Vec<ConnScript>, deadline_ms: u64, make: F) -> Vec<ConnOutcome>
where
    F: FnOnce() -> I + 'static,
    I: IntoServiceFactory<S, Request>,
    S: ServiceFactory<Request, Config = ()> + 'static,
    S::Future: 'static,
    S::Error: Into<Response<actix_http::body::BoxBody>> + 'static,
    S::InitError: fmt::Debug,
    S::Response: Into<Response<B>> + 'static,
    <S::Service as Service<Request>>::Future: 'static,
    B: MessageBody + 'static,
{
    util::install_quiet_panic_hook();
    let rt = tokio::runtime::Builder::new_current_thread()
        .enable_time()
        .start_paused(true)
        .build()
        .expect("runtime");
    let local = tokio::task::LocalSet::new();
    let mark = crate::alloc::mark();
    let mut out = local.block_on(&rt, async move {
        let factory = HttpService::<simnet::SimIo, _, _, _, _>::build()
            .keep_alive(match cfg.ka {
                KaCfg::Disabled => KeepAlive::Disabled,
                KaCfg::Os => KeepAlive::Os,
                KaCfg::Timeout(ms) => KeepAlive::Timeout(Duration::from_millis(ms as u64)),
            })
            .client_request_timeout(Duration::from_millis(cfg.req_timeout_ms as u64))
            .client_disconnect_timeout(Duration::from_millis(cfg.disc_timeout_ms as u64))
            .h1_allow_half_closed(cfg.half_closed)
            .h1_write_buffer_size(cfg.write_buf.max(1) as usize)
            .on_connect_ext(|io: &simnet::SimIo, ext| {
                ext.insert(ConnId(io.0.borrow().id));
            })
            .finish(make());
        let svc = Rc::new(factory.new_service(()).await.expect("service"));
        let mut tasks = vec![];
        for c in conns {
            let svc = svc.clone();
            tasks.push(tokio::task::spawn_local(async move {
                if c.start_ms > 0 {
                    tokio::time::sleep(Duration::from_millis(c.start_ms as u64)).await;
                }
                let (io, peer) = simnet::pair();
                peer.0.borrow_mut().id = c.id;
                let conn = svc.call((io, Protocol::Http1, None));
                let conn_task = tokio::task::spawn_local(async move {
                    match crate::util::PollBudget::new(conn, crate::util::SPIN_LIMIT).await {
                        Ok(r) => r.map_err(|e| format!("{e}")),
                        Err(spin) => Err(spin),
                    }
                });
                let ppeer = peer.clone();
                let input = Bytes::from(c.input);
                let peer_task = tokio::task::spawn_local(simnet::run_peer(ppeer, input, c.peer_ops, c.is_head));
                let res = tokio::time::timeout(Duration::from_millis(deadline_ms), conn_task).await;
                let end = match res {
                    Ok(Ok(Ok(()))) => ConnEnd::Ok,
                    Ok(Ok(Err(e))) if e.starts_with("SPIN:") => ConnEnd::Stalled,
                    Ok(Ok(Err(e))) => ConnEnd::Err(e),
                    Ok(Err(j)) => {
                        if j.is_panic() {
                            ConnEnd::Panicked(util::take_last_panic().unwrap_or_else(|| "<unknown>".into()))
                        } else {
                            ConnEnd::Err("cancelled".into())
                        }
                    }
                    Err(_) => ConnEnd::Stalled,
                };
                peer_task.abort();
                let s = peer.0.borrow();
                ConnOutcome {
                    id: c.id,
                    out: s.out.clone(),
                    out_log: s.out_log.clone(),
                    end,
                    closed: s.shutdown_at.is_some() || s.dropped_at.is_some(),
                    alloc_peak: 0,
                }
            }));
        }
        let mut outs = vec![];
        for t in tasks {
            match t.await {
                Ok(o) => outs.push(o),
                Err(e) => outs.push(ConnOutcome {
                    id: u32::MAX,
                    out: vec![],
                    out_log: vec![],
                    end: if e.is_panic() { ConnEnd::Panicked(util::take_last_panic().unwrap_or_default()) } else { ConnEnd::Err("cancelled".into()) },
                    closed: true,
                    alloc_peak: 0,
                }),
            }
        }
        tokio::task::yield_now().await;
        outs
    });
    let peak = crate::alloc::peak_since(mark);
    for o in out.iter_mut() {
        o.alloc_peak = peak;
    }
    drop(local);
    drop(rt);
    out
}

/// Deliver `input` whole, wait for the server to close (or `wait_ms`), then half-close.
pub fn simple_conn(id: u32, input: Vec<u8>, n_requests: usize, wait_ms: u32) -> ConnScript {
    let len = input.len();
    ConnScript {
        id,
        start_ms: 0,
        input,
        peer_ops: vec![PeerOp::Send(0, len), PeerOp::WaitResps(n_requests, wait_ms), PeerOp::Eof],
        is_head: vec![false; n_requests + 2],
    }
}
