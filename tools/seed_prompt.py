#!/usr/bin/env python3
"""Print the sub-agent brief for seeding a breaking change of property <ID> (only the property text + a worktree)."""
import json, sys
pid = sys.argv[1]; wt = sys.argv[2]
crate_hint = sys.argv[3] if len(sys.argv) > 3 else ""
for l in open('/verif/properties.jsonl'):
    p = json.loads(l)
    if p['id'] == pid: break
else: sys.exit("no such property")
print(f"""You are helping test a verification effort for the Rust project actix-web (HTTP framework workspace). Your job: craft realistic *bugs* (small source changes) that break one stated semantic property while the project still compiles and its existing test suite still passes.

Work ONLY inside this git worktree: {wt}  (a scratch checkout of the project; never touch /repo or /verif, do not read /verif). The sandbox is offline: always pass --offline to cargo (or set CARGO_NET_OFFLINE=true). Use `CARGO_TARGET_DIR={wt}/target`. Builds are expensive: build/test only the crate(s) you change (e.g. `cargo test --offline -p actix-http`), not the whole workspace, and limit parallel jobs with `-j 6`.

THE PROPERTY ({p['id']}: {p['title']})
Statement: {p['statement']}
Quantifier: {p['quantifier']['text']}
Code anchors (where the behaviour lives): {', '.join(p['anchors']['files'])}
Mechanisms: {'; '.join(m['name']+' @ '+m['where'] for m in p['anchors']['mechanism'])}

WHAT TO PRODUCE
Produce TWO different changes (different mechanisms / code sites), each in its own directory {wt}/SEED/1 and {wt}/SEED/2, each containing:
  - patch.diff : `git diff` of the change against the worktree HEAD (source files of the project only, NOT including your demonstration). It must apply cleanly with `git apply` to a clean checkout.
  - a demonstration: a new Rust test file or small program (e.g. a new file under the crate's tests/ directory, demo.rs) that FAILS with the change applied and PASSES without it, plus the exact command to run it. Copy that file into the SEED/<n>/ directory too and say where it must be placed to run.
  - meta.json : {{"property": "{p['id']}", "summary": "...what was changed...", "needs": "...what specific circumstance is needed for the bug to manifest...", "files_changed": [...], "demo_place": "path where the demo file goes", "demo_cmd": "command", "tests_cmd": "the existing-test command you ran and its result"}}

REQUIREMENTS FOR EACH CHANGE
 1. The project still compiles and the EXISTING tests of the changed crate(s) still pass (run them; report the result honestly). Do not edit or delete existing tests.
 2. The change must be subtle: it should need something specific to manifest — a particular interleaving or timing, a fault at a particular point, a multi-step sequence of operations, an unusual input, or two cooperating code sites that each look fine alone. NOT something ordinary use would expose at once (a change that breaks every request is useless).
 3. It should look like a plausible mistake or an 'optimisation'/refactor a developer might really make (off-by-one, dropped wake-up, state not reset, wrong branch order, missing check in one of several code paths, etc.).
 4. The two changes must be independent of each other (apply each to a clean tree separately).
After finishing, make sure the worktree's tracked files are restored to HEAD (git checkout -- . ; remove the demo files you added from the tree, they live in SEED/), leaving only the SEED/ directory (untracked). Finally report briefly: for each change, what it does, what it needs to manifest, and the test results. {crate_hint}""")
