#!/bin/bash
# Confirm a seeded change produced by a sub-agent and run registered checks against it.
#   tools/seed_verify.sh <worktree> <n> <crate> <dest-name> <check-id>...
# 1. worktree: patch applies; demo fails with it; crate tests pass with it; demo passes without it
# 2. /repo: apply patch, run each check's quick tier, undo
# 3. copy to /verif/seeded/<dest-name>/ with meta.json extended by what was run
set -u
WT="$1"; N="$2"; CRATE="$3"; DEST="$4"; shift 4
S="$WT/SEED/$N"
export CARGO_NET_OFFLINE=true CARGO_TARGET_DIR="$WT/target"
[ -f "$S/patch.diff" ] || { echo "no patch"; exit 2; }
cd "$WT" || exit 2
# PHASE=wt: only the worktree part (can run in parallel for several worktrees), results kept in $S/rcs;
# PHASE=repo: only the /repo part, reading $S/rcs; default: both
PHASE="${PHASE:-both}"
if [ "$PHASE" != repo ]; then
git checkout -q -- . ; git clean -fdq -e SEED -e target
PLACE=$(python3 -c "import json;print(json.load(open('$S/meta.json'))['demo_place'])")
CMD=$(python3 -c "import json,re;print(re.split(r'\s{2,}\(', json.load(open('$S/meta.json'))['demo_cmd'])[0])")
DEMO=$(basename "$PLACE")
[ -f "$S/$DEMO" ] || DEMO=$(ls "$S" | grep -E '\.(rs|py|sh)$' | head -1)
echo "== demo file $DEMO -> $PLACE ; cmd: $CMD"
mkdir -p "$(dirname "$WT/$PLACE")"; cp "$S/$DEMO" "$WT/$PLACE"
echo "== demo WITHOUT patch (expect pass)"
( cd "$WT" && eval "$CMD" ) >"$S/demo_clean.log" 2>&1; rc_clean=$?
echo "rc=$rc_clean"
git apply "$S/patch.diff" || { echo "patch does not apply"; exit 2; }
echo "== demo WITH patch (expect fail)"
( cd "$WT" && eval "$CMD" ) >"$S/demo_patched.log" 2>&1; rc_patched=$?
echo "rc=$rc_patched"
rm -f "$WT/$PLACE"
echo "== existing tests of $CRATE WITH patch (expect pass)"
cargo test --offline -j 8 -p "$CRATE" >"$S/tests_patched.log" 2>&1; rc_tests=$?
grep -E "^test result|FAILED|failed" "$S/tests_patched.log" | sort | uniq -c | head -12
echo "rc=$rc_tests"
git checkout -q -- . ; git clean -fdq -e SEED -e target
echo "$rc_clean $rc_patched $rc_tests $DEMO" > "$S/rcs"
fi
[ "$PHASE" = wt ] && exit 0
read rc_clean rc_patched rc_tests DEMO < "$S/rcs"
# ---- checks against /repo
if [ -n "$(git -C /repo status --porcelain --untracked-files=no)" ]; then echo "/repo not clean"; exit 2; fi
git -C /repo apply "$S/patch.diff" || { echo "patch does not apply to /repo"; exit 2; }
results=""
for id in "$@"; do
  echo "== ./check $id --tier quick on patched /repo"
  ( cd /verif && ./check "$id" --tier quick ) >"$S/check_$id.log" 2>&1; rc=$?
  grep -E "VIOLATION|violation in|evaluations=" "$S/check_$id.log" | head -6
  echo "rc=$rc"
  results="$results $id:$rc"
  # keep the first shrunk failure as a regression replay (it must pass on the unchanged tree)
  first=$(grep -o "replay=[^ ]*" "$S/check_$id.log" | head -1 | cut -d= -f2)
  if [ -n "$first" ] && [ -f "$first" ] && python3 -c "import json,sys;json.load(open(sys.argv[1]))" "$first" 2>/dev/null && [[ "$first" != *"/regress/"* ]] && [[ "$first" != *"/known/"* ]]; then
    mv "$first" "/verif/replays/regress/$id-seed-$DEST.json"
  fi
  for f in $(grep -o "replay=[^ ]*" "$S/check_$id.log" | cut -d= -f2); do
    [[ "$f" == /verif/replays/$id-* ]] && rm -f "$f"
  done
done
git -C /repo checkout -- .
# remove replay files the failing checks wrote (they belong to the seeded tree, not to /repo)
mkdir -p "/verif/seeded/$DEST"
cp "$S/patch.diff" "$S/$DEMO" "/verif/seeded/$DEST/"
python3 - "$S/meta.json" "/verif/seeded/$DEST/meta.json" "$rc_clean" "$rc_patched" "$rc_tests" "$results" <<'PY'
import json,sys
m=json.load(open(sys.argv[1]))
m['confirmed']={'demo_without_patch_rc':int(sys.argv[3]),'demo_with_patch_rc':int(sys.argv[4]),'crate_tests_with_patch_rc':int(sys.argv[5]),
  'checks_quick_rc':dict(x.split(':') for x in sys.argv[6].split())}
json.dump(m,open(sys.argv[2],'w'),indent=1)
print(json.dumps(m['confirmed']))
PY
