//! C19 — no peer-controlled input makes the library panic, overflow, slice out of bounds or loop.
//!
//! One entry function per input surface (`exercise`), used both by the structured-mutation layer
//! here (proptest: valid artefacts rendered by the other properties' renderers, then bit flips,
//! truncation, duplication, oversizing, length-field extremes, splices of random bytes; delivered
//! whole and fragmented) and by the libFuzzer targets in /verif/fuzz. Everything runs with
//! overflow checks and debug assertions on, under `catch_unwind`; async surfaces run on the
//! wake-driven runtime with a virtual deadline (a miss = unbounded loop / hang), and the
//! allocation high-water mark of an iteration is bounded.

use std::collections::HashMap;

use actix_web::{
    dev::{AppConfig, Service as _},
    http::header,
    web, App, HttpMessage as _, HttpRequest, HttpResponse,
};
use bytes::{Bytes, BytesMut};
use futures_util::StreamExt as _;
use proptest::prelude::*;
use serde::{Deserialize, Serialize};
use tokio_util::codec::Decoder as _;

use crate::{
    appengine::{self, ConnScript},
    h1engine::{ConnEnd, SrvCfg},
    runner::{self, explore, Report, RunCfg, Verdict},
    simnet::PeerOp,
    streams::{self, RunEnd, ScriptedStream, StreamEnd},
    util,
};

#[derive(Debug, Clone, Copy, Serialize, Deserialize, PartialEq, Eq, Hash)]
pub enum Target {
    H1Server,
    WsStream,
    Multipart,
    TypedHeaders,
    UriPath,
    ClientResponse,
}

pub const TARGETS: [Target; 6] = [Target::H1Server, Target::WsStream, Target::Multipart, Target::TypedHeaders, Target::UriPath, Target::ClientResponse];

#[derive(Debug, Clone, Serialize, Deserialize, PartialEq, Eq, Hash)]
pub enum Mutation {
    FlipBit(u16, u8),
    Truncate(u16),
    Duplicate(u16, u16),
    InsertRandom(u16, u8, u16),
    /// overwrite a run of digits / a length field at a selected position with an extreme value
    Extreme(u16, u8),
    Delete(u16, u8),
    Splice(u16, Vec<u8>),
}

#[derive(Debug, Clone, Serialize, Deserialize)]
pub struct Case {
    pub target: Target,
    /// which valid artefact to start from
    pub base: u16,
    pub muts: Vec<Mutation>,
    /// fragment sizes (cyclic); empty = whole
    pub frags: Vec<u16>,
    /// raw override (replay of fuzzer artifacts): bytes used as they are
    pub raw: Option<Vec<u8>>,
}

const EXTREMES: [&str; 10] = ["0", "65535", "65536", "4294967295", "4294967296", "9223372036854775807", "9223372036854775808", "18446744073709551615", "18446744073709551616", "-1"];

fn apply(mut data: Vec<u8>, muts: &[Mutation]) -> Vec<u8> {
    for m in muts {
        let n = data.len();
        match m {
            Mutation::FlipBit(p, b) => {
                if n > 0 {
                    let i = util::pick_idx(*p, n);
                    data[i] ^= 1 << (b % 8);
                }
            }
            Mutation::Truncate(p) => {
                let i = util::pick_idx(*p, n + 1);
                data.truncate(i);
            }
            Mutation::Duplicate(p, l) => {
                if n > 0 {
                    let i = util::pick_idx(*p, n);
                    let e = (i + *l as usize % 300 + 1).min(n);
                    let seg = data[i..e].to_vec();
                    let at = e;
                    data.splice(at..at, seg);
                }
            }
            Mutation::InsertRandom(p, k, seed) => {
                let i = util::pick_idx(*p, n + 1);
                let ins: Vec<u8> = (0..*k as u64).map(|j| util::data_byte(*seed as u64, j)).collect();
                data.splice(i..i, ins);
            }
            Mutation::Extreme(p, which) => {
                // find the digit run nearest after the selected position and replace it
                if n > 0 {
                    let start = util::pick_idx(*p, n);
                    if let Some(off) = data[start..].iter().position(|c| c.is_ascii_digit()) {
                        let a = start + off;
                        let b = a + data[a..].iter().take_while(|c| c.is_ascii_hexdigit()).count();
                        data.splice(a..b, EXTREMES[*which as usize % EXTREMES.len()].bytes());
                    } else {
                        // binary length fields: overwrite 8 bytes with 0xff / 0x7f patterns
                        let e = (start + 8).min(n);
                        for (k, x) in data[start..e].iter_mut().enumerate() {
                            *x = if *which % 2 == 0 { 0xff } else if k == 0 { 0x7f } else { 0xff };
                        }
                    }
                }
            }
            Mutation::Delete(p, k) => {
                if n > 0 {
                    let i = util::pick_idx(*p, n);
                    let e = (i + *k as usize).min(n);
                    data.drain(i..e);
                }
            }
            Mutation::Splice(p, bytes) => {
                let i = util::pick_idx(*p, n + 1);
                data.splice(i..i, bytes.iter().copied());
            }
        }
    }
    data
}

// ------------------------------------------------------------------------------------------
// valid artefacts
// ------------------------------------------------------------------------------------------

fn base_h1(i: u16) -> Vec<u8> {
    let bases: [&[u8]; 12] = [
        b"GET /sink?a=1&b=%41&c HTTP/1.1\r\nHost: example.org:8080\r\nAccept: text/html;q=0.8, */*;q=0.1\r\nAccept-Charset: utf-8, iso-8859-1;q=0.5\r\nAccept-Encoding: gzip;q=1.0, br, *;q=0\r\nAccept-Language: da, en-gb;q=0.8\r\nCookie: a=b; c=d; e=\"f g\"\r\nRange: bytes=0-4, 10-, -5\r\nIf-Match: \"x\", W/\"y\"\r\nIf-None-Match: *\r\nIf-Modified-Since: Tue, 22 Sep 2026 10:00:00 GMT\r\nIf-Unmodified-Since: Tue, 22 Sep 2026 10:00:00 GMT\r\nIf-Range: \"abc\"\r\nForwarded: for=192.0.2.60;proto=http;by=203.0.113.43;host=h\r\nX-Forwarded-For: 1.2.3.4, 5.6.7.8\r\nX-Forwarded-Proto: https\r\nX-Forwarded-Host: a.b\r\n\r\n",
        b"POST /json HTTP/1.1\r\nHost: x\r\nContent-Type: application/json\r\nContent-Length: 27\r\n\r\n{\"a\":[1,2,{\"b\":null}],\"c\":1}",
        b"POST /form HTTP/1.1\r\nHost: x\r\nContent-Type: application/x-www-form-urlencoded\r\nTransfer-Encoding: chunked\r\n\r\n7\r\na=1&b=2\r\n6;ext=1\r\n&c=%41\r\n0\r\n\r\n",
        b"POST /mp HTTP/1.1\r\nHost: x\r\nContent-Type: multipart/form-data; boundary=\"XyZ\"\r\nContent-Length: 153\r\n\r\n--XyZ\r\nContent-Disposition: form-data; name=\"a\"; filename=\"f.txt\"\r\nContent-Type: text/plain\r\n\r\nhello\r\n--XyZ\r\nContent-Disposition: form-data; name=b\r\n\r\nworld\r\n--XyZ--\r\n",
        b"GET /static/a.txt HTTP/1.1\r\nHost: x\r\nRange: bytes=2-5\r\nIf-None-Match: \"zzz\"\r\n\r\n",
        b"GET /static/..%2f%2e%2e/dir/%00 HTTP/1.1\r\nHost: x\r\n\r\n",
        b"GET /ws HTTP/1.1\r\nHost: x\r\nUpgrade: websocket\r\nConnection: Upgrade\r\nSec-WebSocket-Version: 13\r\nSec-WebSocket-Key: dGhlIHNhbXBsZSBub25jZQ==\r\n\r\n",
        b"GET /path/abc/42 HTTP/1.0\r\nConnection: keep-alive\r\nContent-Disposition: attachment; filename*=UTF-8''%e2%82%ac%20rates; filename=\"x.txt\"\r\nContent-Range: bytes 0-4/10\r\nContent-Language: en-US\r\nCache-Control: max-age=10, no-cache=\"a\", private\r\nAllow: GET, HEAD\r\nETag: W/\"e\"\r\nExpires: Tue, 22 Sep 2026 10:00:00 GMT\r\nLast-Modified: Tue, 22 Sep 2026 10:00:00 GMT\r\nDate: Tue, 22 Sep 2026 10:00:00 GMT\r\n\r\n",
        b"HEAD /sink HTTP/1.1\r\nHost: x\r\nExpect: 100-continue\r\nContent-Length: 0\r\n\r\nGET /sink HTTP/1.1\r\nHost: y\r\n\r\n",
        b"PUT /json HTTP/1.1\r\nHost: x\r\nContent-Type: application/json; charset=utf-8\r\nContent-Encoding: gzip\r\nContent-Length: 10\r\n\r\n\x1f\x8b\x08\x00\x00\x00\x00\x00\x00\x03",
        b"OPTIONS * HTTP/1.1\r\nHost: x\r\n\r\n",
        b"GET http://user@host.example:81/path/a/7?q#frag HTTP/1.1\r\nHost: other\r\n\r\n",
    ];
    bases[i as usize % bases.len()].to_vec()
}

fn ws_frame(fin: bool, op: u8, masked: bool, payload: &[u8]) -> Vec<u8> {
    let mut v = vec![if fin { 0x80 } else { 0 } | op];
    let m = if masked { 0x80 } else { 0 };
    if payload.len() < 126 {
        v.push(m | payload.len() as u8);
    } else if payload.len() < 65_536 {
        v.push(m | 126);
        v.extend_from_slice(&(payload.len() as u16).to_be_bytes());
    } else {
        v.push(m | 127);
        v.extend_from_slice(&(payload.len() as u64).to_be_bytes());
    }
    if masked {
        v.extend_from_slice(&[1, 2, 3, 4]);
        v.extend(payload.iter().enumerate().map(|(i, b)| b ^ [1, 2, 3, 4][i & 3]));
    } else {
        v.extend_from_slice(payload);
    }
    v
}

fn base_ws(i: u16) -> Vec<u8> {
    let masked = i % 2 == 0;
    let mut v = vec![];
    match (i / 2) % 6 {
        0 => {
            v.extend(ws_frame(true, 1, masked, b"hello"));
            v.extend(ws_frame(true, 9, masked, b"p"));
            v.extend(ws_frame(true, 8, masked, &[0x03, 0xe8, b'b', b'y', b'e']));
        }
        1 => {
            v.extend(ws_frame(false, 2, masked, &[7; 130]));
            v.extend(ws_frame(false, 0, masked, &[8; 3]));
            v.extend(ws_frame(true, 0, masked, &[]));
        }
        2 => v.extend(ws_frame(true, 2, masked, &vec![5; 70_000])),
        3 => {
            v.extend(ws_frame(true, 8, masked, &[0x03]));
            v.extend(ws_frame(true, 8, masked, &[]));
        }
        4 => v.extend(ws_frame(true, 10, masked, &[1; 125])),
        _ => {
            v.extend(ws_frame(true, 8, masked, &[0x0f, 0xa0]));
            v.extend(ws_frame(true, 1, masked, "\u{20ac}".as_bytes()));
        }
    }
    v
}

fn base_multipart(i: u16) -> Vec<u8> {
    let bases: [&[u8]; 4] = [
        b"--B\r\nContent-Disposition: form-data; name=\"a\"\r\n\r\nhello\r\n--B\r\nContent-Disposition: form-data; name=\"b\"; filename=\"x\"\r\nContent-Type: application/octet-stream\r\nContent-Length: 3\r\n\r\nabc\r\n--B--\r\n",
        b"preamble\r\n--B\r\nContent-Disposition: form-data; name=a\r\n\r\n\r\n--B\r\nContent-Disposition: form-data; name=b\r\n\r\nx\r\r\n--\r\n--B--",
        b"--B\r\nContent-Type: text/plain\r\nContent-Disposition: attachment\r\n\r\nbody\r\n--B--\r\nepilogue",
        b"--B--\r\n",
    ];
    bases[i as usize % bases.len()].to_vec()
}

const HEADER_VALUES: [&str; 24] = [
    "text/html;q=0.8, */*;q=0.1",
    "utf-8, iso-8859-1;q=0.5",
    "gzip;q=1.0, br, *;q=0",
    "da, en-gb;q=0.8, *",
    "GET, HEAD",
    "max-age=10, no-cache=\"a\", private, s-maxage=5",
    "attachment; filename*=UTF-8''%e2%82%ac%20rates; filename=\"x.txt\"; name=f",
    "en-US, de",
    "12345",
    "bytes 0-4/10",
    "text/plain; charset=utf-8",
    "Tue, 22 Sep 2026 10:00:00 GMT",
    "W/\"etag\"",
    "\"x\", W/\"y\"",
    "*",
    "bytes=0-4, 10-, -5",
    "form-data; name=\"a b\"; filename=\"c\\\"d\"",
    "Tuesday, 22-Sep-26 10:00:00 GMT",
    "Tue Sep 22 10:00:00 2026",
    "inline",
    "custom-unit=1-2",
    "for=192.0.2.60;proto=http;by=203.0.113.43",
    "a=b; c=d; e=\"f g\"; =x; y",
    "",
];

fn base_client_resp(i: u16) -> Vec<u8> {
    let bases: [&[u8]; 6] = [
        b"HTTP/1.1 200 OK\r\nContent-Length: 5\r\nContent-Type: text/plain\r\n\r\nhello",
        b"HTTP/1.1 200 OK\r\nTransfer-Encoding: chunked\r\n\r\n5;x=y\r\nhello\r\n3\r\nabc\r\n0\r\n\r\n",
        b"HTTP/1.0 200 OK\r\nConnection: close\r\n\r\nbody until close",
        b"HTTP/1.1 100 Continue\r\n\r\nHTTP/1.1 204 No Content\r\nSet-Cookie: a=b; Path=/; Max-Age=10\r\n\r\n",
        b"HTTP/1.1 301 Moved\r\nLocation: http://sim.test/other\r\nContent-Length: 0\r\n\r\n",
        b"HTTP/1.1 200 OK\r\nContent-Encoding: gzip\r\nContent-Length: 10\r\n\r\n\x1f\x8b\x08\x00\x00\x00\x00\x00\x00\x03",
    ];
    bases[i as usize % bases.len()].to_vec()
}

pub fn base_for(target: Target, i: u16) -> Vec<u8> {
    match target {
        Target::H1Server => base_h1(i),
        Target::WsStream => {
            let mut v = vec![(i % 2) as u8];
            v.extend(base_ws(i));
            v
        }
        Target::Multipart => base_multipart(i),
        Target::TypedHeaders => {
            let mut v = vec![(i % 32) as u8];
            v.extend_from_slice(HEADER_VALUES[(i / 3) as usize % HEADER_VALUES.len()].as_bytes());
            v
        }
        Target::UriPath => {
            let bases = ["/user/alice/42", "/static/..%2f%2e%2e/x", "/a%20b/%41%zz/%", "/files/\u{fc}/x.txt", "//a///b/../c/./d", "/tail/a/b/c?x=1&y=%zz#f", "*", ""];
            bases[i as usize % bases.len()].as_bytes().to_vec()
        }
        Target::ClientResponse => base_client_resp(i),
    }
}

// ------------------------------------------------------------------------------------------
// the surfaces
// ------------------------------------------------------------------------------------------

#[derive(Deserialize, Debug)]
#[allow(dead_code)]
struct PathParams {
    a: String,
    b: u32,
}

fn typed_headers<M: actix_web::HttpMessage>(req: &M) -> usize {
    let mut ok = 0;
    macro_rules! try_hdr {
        ($($t:ty),*) => { $( if req.get_header::<$t>().is_some() { ok += 1; } )* };
    }
    try_hdr!(
        header::Accept,
        header::AcceptCharset,
        header::AcceptEncoding,
        header::AcceptLanguage,
        header::Allow,
        header::CacheControl,
        header::ContentDisposition,
        header::ContentLanguage,
        header::ContentLength,
        header::ContentRange,
        header::ContentType,
        header::Date,
        header::ETag,
        header::Expires,
        header::IfMatch,
        header::IfModifiedSince,
        header::IfNoneMatch,
        header::IfRange,
        header::IfUnmodifiedSince,
        header::LastModified,
        header::Range
    );
    ok
}

async fn sink(req: HttpRequest) -> HttpResponse {
    let n = typed_headers(&req);
    let ci = req.connection_info().clone();
    let _ = (ci.host().len(), ci.scheme().len(), ci.realip_remote_addr().map(|s| s.len()));
    let cookies = req.cookies().map(|c| c.len()).unwrap_or(0);
    let q = web::Query::<HashMap<String, String>>::from_query(req.query_string()).map(|q| q.len()).unwrap_or(0);
    let _ = req.url_for("named", ["x", "1"]);
    let _ = (req.mime_type().ok(), req.encoding().ok().map(|e| e.name()), req.content_type().len(), req.chunked().ok());
    HttpResponse::Ok().body(format!("{n} {cookies} {q}"))
}

async fn mp_handler(mut mp: actix_multipart::Multipart) -> HttpResponse {
    let mut n = 0usize;
    while let Some(item) = mp.next().await {
        match item {
            Ok(mut f) => {
                let _ = (f.name().map(|s| s.len()), f.content_type().map(|m| m.to_string()), f.content_disposition().map(|c| c.to_string()));
                while let Some(ch) = f.next().await {
                    match ch {
                        Ok(b) => n += b.len(),
                        Err(_) => return HttpResponse::BadRequest().finish(),
                    }
                }
            }
            Err(_) => return HttpResponse::BadRequest().finish(),
        }
    }
    HttpResponse::Ok().body(n.to_string())
}

async fn ws_handler(req: HttpRequest) -> HttpResponse {
    match actix_http::ws::handshake(req.head()) {
        Ok(mut b) => HttpResponse::from(b.finish().map_body(|_, _| ())).set_body(actix_web::body::BoxBody::new(())),
        Err(_) => HttpResponse::BadRequest().finish(),
    }
}

fn kitchen_sink(files_root: std::path::PathBuf) -> impl actix_service::ServiceFactory<
    actix_http::Request,
    Config = (),
    Response = actix_web::dev::ServiceResponse<impl actix_web::body::MessageBody>,
    Error = actix_web::Error,
    InitError = (),
> {
    let app = App::new()
        .wrap(actix_web::middleware::Compress::default())
        .wrap_fn(|req, srv| {
            let _ = typed_headers(req.request());
            srv.call(req)
        })
        .service(web::resource("/json").to(|j: Result<web::Json<serde_json::Value>, actix_web::Error>| async move { HttpResponse::Ok().body(format!("{}", j.is_ok())) }))
        .service(web::resource("/form").to(|f: Result<web::Form<HashMap<String, String>>, actix_web::Error>| async move { HttpResponse::Ok().body(format!("{}", f.is_ok())) }))
        .service(web::resource("/mp").to(mp_handler))
        .service(web::resource("/ws").to(ws_handler))
        .service(web::resource("/path/{a}/{b}").name("named").to(|p: Result<web::Path<PathParams>, actix_web::Error>, req: HttpRequest| async move {
            let _ = req.match_info().iter().count();
            HttpResponse::Ok().body(format!("{}", p.is_ok()))
        }))
        .service(web::resource("/text").to(|s: Result<String, actix_web::Error>| async move { HttpResponse::Ok().body(format!("{}", s.is_ok())) }))
        .service(actix_files::Files::new("/static", files_root).show_files_listing().index_file("index.html"))
        .default_service(web::to(sink));
    actix_service::map_config(app, |_| AppConfig::default())
}

thread_local! {
    static FILES_ROOT: std::cell::RefCell<Option<std::path::PathBuf>> = const { std::cell::RefCell::new(None) };
}

fn files_root() -> std::path::PathBuf {
    FILES_ROOT.with(|r| {
        let mut r = r.borrow_mut();
        if r.is_none() {
            let vp_root = std::env::var("VP_ROOT").unwrap_or_else(|_| "/verif".into());
            let base = std::env::var("VP_C19_TMP").map(std::path::PathBuf::from).unwrap_or_else(|_| std::path::PathBuf::from(vp_root).join("target").join("tmp"));
            let p = base.join(format!("c19-{}-{:?}", std::process::id(), std::thread::current().id()).replace(['(', ')'], ""));
            let _ = std::fs::create_dir_all(p.join("dir"));
            let _ = std::fs::write(p.join("a.txt"), b"0123456789");
            let _ = std::fs::write(p.join("empty"), b"");
            let _ = std::fs::write(p.join("index.html"), b"<html></html>");
            let _ = std::fs::write(p.join("dir").join("b.bin"), vec![7u8; 3000]);
            *r = Some(p);
        }
        r.clone().unwrap()
    })
}

pub fn cleanup_tmp() {
    let vp_root = std::env::var("VP_ROOT").unwrap_or_else(|_| "/verif".into());
    let tmp = std::path::PathBuf::from(vp_root).join("target").join("tmp");
    if let Ok(rd) = std::fs::read_dir(&tmp) {
        for e in rd.flatten() {
            if e.file_name().to_string_lossy().starts_with(&format!("c19-{}-", std::process::id())) {
                let _ = std::fs::remove_dir_all(e.path());
            }
        }
    }
}

fn frag_cuts(len: usize, frags: &[u16]) -> Vec<usize> {
    if frags.is_empty() || len == 0 {
        return vec![];
    }
    let mut cuts = vec![];
    let mut pos = 0usize;
    let mut i = 0;
    while pos < len && cuts.len() < 4000 {
        pos += (frags[i % frags.len()] as usize % 2000) + 1;
        i += 1;
        if pos < len {
            cuts.push(pos);
        }
    }
    cuts
}

#[derive(Debug, Default)]
pub struct Exercised {
    /// how far the input got: number of second-level parsers that accepted something
    pub depth: u32,
    pub alloc_peak: isize,
}

/// Run `data` through one input surface. `Err` = property violation (panic / hang / allocation).
pub fn exercise(target: Target, data: &[u8], frags: &[u16]) -> Result<Exercised, String> {
    let mark = crate::alloc::mark();
    let r = util::catch(|| exercise_inner(target, data, frags));
    let peak = crate::alloc::peak_since(mark);
    match r {
        Err(p) => Err(format!("{p} [{target:?}, {} input bytes]", data.len())),
        Ok(Err(e)) => Err(format!("{e} [{target:?}, {} input bytes]", data.len())),
        Ok(Ok(mut x)) => {
            x.alloc_peak = peak;
            // inputs are <= ~200 KB; everything an iteration allocates (harness copies included)
            // must stay far below this
            if peak > (96 << 20) {
                return Err(format!("allocation high-water mark of {peak} bytes for a {}-byte input [{target:?}]", data.len()));
            }
            Ok(x)
        }
    }
}

fn exercise_inner(target: Target, data: &[u8], frags: &[u16]) -> Result<Exercised, String> {
    match target {
        Target::H1Server => {
            let input = data.to_vec();
            let len = input.len();
            let cuts = frag_cuts(len, frags);
            let mut ops = vec![];
            let mut prev = 0;
            for c in cuts {
                ops.push(PeerOp::Send(prev, c));
                ops.push(PeerOp::Yield);
                prev = c;
            }
            ops.push(PeerOp::Send(prev, len));
            ops.push(PeerOp::Sleep(50));
            ops.push(PeerOp::Eof);
            let root = files_root();
            let outs = appengine::run_app(
                SrvCfg { req_timeout_ms: 2000, disc_timeout_ms: 500, ..Default::default() },
                vec![ConnScript { id: 1, start_ms: 0, input, peer_ops: ops, is_head: vec![false; 64] }],
                600_000,
                move || kitchen_sink(root),
            );
            let out = &outs[0];
            match &out.end {
                ConnEnd::Panicked(p) => Err(format!("panic in the connection task: {p}")),
                ConnEnd::Stalled => Err("the connection never completed (unbounded wait / loop)".into()),
                _ => {
                    let ok200 = util::find_sub(&out.out, b"HTTP/1.1 200").is_some() || util::find_sub(&out.out, b"HTTP/1.0 200").is_some();
                    let later = util::find_sub(&out.out, b"true").is_some() || util::find_sub(&out.out, b"101 Switching").is_some() || util::find_sub(&out.out, b"206 Partial").is_some();
                    Ok(Exercised { depth: ok200 as u32 + later as u32, alloc_peak: 0 })
                }
            }
        }
        Target::WsStream => {
            let (server, body) = match data.split_first() {
                Some((r, b)) => (*r % 2 == 0, b),
                None => (true, data),
            };
            let mut depth = 0;
            for max_size in [65_536usize, 125, 0, 1 << 20] {
                let mut codec = actix_http::ws::Codec::new().max_size(max_size);
                if !server {
                    codec = codec.client_mode();
                }
                let mut buf = BytesMut::new();
                let cuts = frag_cuts(body.len(), frags);
                let mut prev = 0;
                let mut steps = 0u32;
                'feed: for c in cuts.into_iter().chain(std::iter::once(body.len())) {
                    buf.extend_from_slice(&body[prev..c]);
                    prev = c;
                    loop {
                        steps += 1;
                        if steps > 200_000 {
                            return Err("ws decoder does not make progress (unbounded loop)".into());
                        }
                        match codec.decode(&mut buf) {
                            Ok(Some(f)) => {
                                depth += 1;
                                if let actix_http::ws::Frame::Close(Some(r)) = &f {
                                    let _ = (u16::from(r.code), r.description.as_ref().map(|d| d.len()));
                                }
                            }
                            Ok(None) => break,
                            Err(_) => break 'feed,
                        }
                    }
                }
                // the close-payload parser is public too
                let _ = actix_http::ws::Parser::parse_close_payload(body);
            }
            Ok(Exercised { depth, alloc_peak: 0 })
        }
        Target::Multipart => {
            let body = data.to_vec();
            let cuts = frag_cuts(body.len(), frags);
            let chunks = streams::split_at(&body, &cuts);
            let n = chunks.len();
            let (stream, _st) = ScriptedStream::new(chunks, (0..n + 1).map(|i| (i % 3 == 1) as u8).collect(), StreamEnd::Eof);
            let fut = async move {
                let mut headers = actix_web::http::header::HeaderMap::new();
                headers.insert(header::CONTENT_TYPE, header::HeaderValue::from_static("multipart/form-data; boundary=B"));
                let mut mp = actix_multipart::Multipart::new(&headers, stream);
                let mut fields = 0u32;
                while let Some(item) = mp.next().await {
                    match item {
                        Ok(mut f) => {
                            fields += 1;
                            let _ = (f.name().map(|s| s.len()), f.content_disposition().map(|c| c.to_string()));
                            while let Some(ch) = f.next().await {
                                if ch.is_err() {
                                    return fields;
                                }
                            }
                        }
                        Err(_) => return fields,
                    }
                }
                fields
            };
            match streams::run_local(120_000, fut) {
                RunEnd::Done(f) => Ok(Exercised { depth: f, alloc_peak: 0 }),
                RunEnd::Hang => Err("multipart parser never terminated".into()),
                RunEnd::Panicked(p) => Err(format!("panic: {p}")),
            }
        }
        Target::TypedHeaders => {
            let (sel, value) = match data.split_first() {
                Some((s, v)) => (*s, v),
                None => (0, data),
            };
            let Ok(hv) = header::HeaderValue::from_bytes(value) else {
                return Ok(Exercised::default());
            };
            let names = [
                header::ACCEPT,
                header::ACCEPT_CHARSET,
                header::ACCEPT_ENCODING,
                header::ACCEPT_LANGUAGE,
                header::ALLOW,
                header::CACHE_CONTROL,
                header::CONTENT_DISPOSITION,
                header::CONTENT_LANGUAGE,
                header::CONTENT_LENGTH,
                header::CONTENT_RANGE,
                header::CONTENT_TYPE,
                header::DATE,
                header::ETAG,
                header::EXPIRES,
                header::IF_MATCH,
                header::IF_MODIFIED_SINCE,
                header::IF_NONE_MATCH,
                header::IF_RANGE,
                header::IF_UNMODIFIED_SINCE,
                header::LAST_MODIFIED,
                header::RANGE,
                header::COOKIE,
                header::FORWARDED,
                header::HOST,
            ];
            let mut depth = 0;
            // the selected header, plus the same value under every typed name when sel is high
            let pick: Vec<header::HeaderName> = if sel >= 24 { names.to_vec() } else { vec![names[sel as usize % names.len()].clone()] };
            for name in pick {
                // Content-Length reaches the typed parser only through the HTTP/1 decoder or the
                // h2 crate, both of which refuse a leading '+' (the typed parser states that
                // precondition in a debug assertion); the H1Server surface covers the real path.
                if name == header::CONTENT_LENGTH && hv.to_str().map(|s| s.trim().starts_with('+')).unwrap_or(false) {
                    continue;
                }
                // a plain actix_http::Request (TestRequest::to_http_request leaks its request
                // pool, which matters at fuzzing rates); cookies and ConnectionInfo are reached
                // through the H1Server surface
                let mut req = actix_http::Request::new();
                req.headers_mut().insert(name, hv.clone());
                depth += typed_headers(&req) as u32;
                let _ = (req.mime_type().ok(), req.encoding().ok().map(|e| e.name()), req.content_type().len(), req.chunked().ok());
            }
            if let Ok(cd) = header::ContentDisposition::from_raw(&hv) {
                depth += 1;
                let _ = (cd.get_name().map(|s| s.len()), cd.get_filename().map(|s| s.len()), cd.get_filename_ext().map(|e| e.value.len()), cd.to_string().len());
            }
            if let Ok(s) = hv.to_str() {
                for len in [0u64, 1, 10, u64::MAX] {
                    if let Ok(r) = actix_files::HttpRange::parse(s, len) {
                        depth += r.len() as u32;
                    }
                }
                if let Ok(r) = s.parse::<header::Range>() {
                    depth += 1;
                    let _ = r.to_string();
                    if let header::Range::Bytes(specs) = &r {
                        for sp in specs {
                            let _ = sp.to_satisfiable_range(10);
                            let _ = sp.to_satisfiable_range(0);
                        }
                    }
                }
                let _ = s.parse::<header::CacheDirective>().map(|d| d.to_string());
                let _ = s.parse::<header::EntityTag>().map(|d| d.to_string());
                let _ = s.parse::<header::ContentRangeSpec>().map(|d| d.to_string());
                let _ = s.parse::<mime::Mime>().map(|d| d.to_string());
                let _ = s.parse::<header::HttpDate>().map(|d| d.to_string());
            }
            Ok(Exercised { depth, alloc_peak: 0 })
        }
        Target::UriPath => {
            let mut depth = 0;
            let Ok(s) = std::str::from_utf8(data) else { return Ok(Exercised::default()) };
            // routing structures on the string as given
            let q = actix_router::Quoter::new(b"", b"%/+");
            let _ = q.requote(data);
            thread_local! {
                // compiled once per thread: pattern compilation is programmer input, not peer input
                static DEFS: Vec<actix_router::ResourceDef> = [("/user/{name}/{id:\\d+}", false), ("/static", true), ("/tail/{t}*", false), ("/{a}/{b}/{c}", true), ("", true)]
                    .into_iter()
                    .map(|(pat, prefix)| if prefix { actix_router::ResourceDef::prefix(pat) } else { actix_router::ResourceDef::new(pat) })
                    .collect();
            }
            let defs = DEFS.with(|d| d.clone());
            for rd in defs.iter() {
                if s.len() <= 65_534 {
                    let mut p = actix_router::Path::new(s);
                    if rd.capture_match_info(&mut p) {
                        depth += 1;
                        let _ = p.iter().map(|(k, v)| k.len() + v.len()).sum::<usize>();
                        let _ = p.unprocessed().len();
                        let _ = p.load::<(String, String)>();
                        let _ = p.load::<HashMap<String, String>>();
                        let _ = p.load::<Vec<String>>();
                    }
                    let _ = (rd.is_match(s), rd.find_match(s));
                }
            }
            if let Ok(pb) = actix_files::PathBufWrap::parse_path(s, false) {
                depth += 1;
                let _ = pb;
            }
            let _ = actix_files::PathBufWrap::parse_path(s, true);
            if let Ok(uri) = http::Uri::try_from(s) {
                depth += 1;
                let url = actix_router::Url::new(uri.clone());
                let _ = url.path().len();
                let mut p = actix_router::Path::new(url);
                let _ = defs[3].capture_match_info(&mut p);
                let query = uri.query().unwrap_or("");
                let _ = web::Query::<HashMap<String, String>>::from_query(query).map(|q| q.len());
                let _ = web::Query::<Vec<(String, u32)>>::from_query(query).map(|q| q.len());
            }
            Ok(Exercised { depth, alloc_peak: 0 })
        }
        Target::ClientResponse => {
            let resp = data.to_vec();
            let frags: Vec<u16> = frags.to_vec();
            let fut = async move {
                use actix_service::fn_service;
                use actix_tls::connect::{ConnectError, ConnectInfo, Connection};
                let resp = std::rc::Rc::new(resp);
                let frags = std::rc::Rc::new(frags);
                let connector = fn_service(move |info: ConnectInfo<awc::http::Uri>| {
                    let resp = resp.clone();
                    let frags = frags.clone();
                    async move {
                        let (io, peer) = crate::simnet::pair();
                        tokio::task::spawn_local(async move {
                            // wait for the request head, then send the response in fragments
                            loop {
                                let have = peer.0.borrow().out.windows(4).any(|w| w == b"\r\n\r\n");
                                if have || peer.is_closed() {
                                    break;
                                }
                                let cur = peer.out_len();
                                peer.wait_out(cur + 1, 10_000).await;
                                if peer.out_len() == cur {
                                    break;
                                }
                            }
                            let cuts = frag_cuts(resp.len(), &frags);
                            let mut prev = 0;
                            for c in cuts.into_iter().chain(std::iter::once(resp.len())) {
                                if c > prev {
                                    peer.send(Bytes::copy_from_slice(&resp[prev..c]));
                                    tokio::task::yield_now().await;
                                    prev = c;
                                }
                            }
                            peer.eof();
                        });
                        Ok::<_, ConnectError>(Connection::new(info.request().clone(), io))
                    }
                });
                let client = awc::Client::builder().connector(awc::Connector::new().connector(connector)).timeout(std::time::Duration::from_secs(20)).finish();
                let mut depth = 0u32;
                if let Ok(mut r) = client.get("http://sim.test/x").insert_header(("accept-encoding", "gzip, br")).send().await {
                    depth += 1;
                    let _ = r.cookies().map(|c| c.len());
                    let _ = (r.status(), r.version(), r.headers().len());
                    if r.body().limit(1 << 22).await.is_ok() {
                        depth += 1;
                    }
                }
                depth
            };
            match streams::run_local(600_000, fut) {
                RunEnd::Done(d) => Ok(Exercised { depth: d, alloc_peak: 0 }),
                RunEnd::Hang => Err("the client never completed".into()),
                RunEnd::Panicked(p) => Err(format!("panic: {p}")),
            }
        }
    }
}

pub fn run_case(_cfg: &RunCfg, case: &Case) -> Verdict {
    let data = match &case.raw {
        Some(r) => r.clone(),
        None => apply(base_for(case.target, case.base), &case.muts),
    };
    let data = if data.len() > 300_000 { data[..300_000].to_vec() } else { data };
    match exercise(case.target, &data, &case.frags) {
        Ok(x) => Verdict::ok()
            .nt(x.depth >= 1 && !case.muts.is_empty())
            .class(match case.target {
                Target::H1Server => "h1-server",
                Target::WsStream => "ws-stream",
                Target::Multipart => "multipart",
                Target::TypedHeaders => "typed-headers",
                Target::UriPath => "uri-path",
                Target::ClientResponse => "client-response",
            })
            .class_if(x.depth >= 2, "reached-second-level-parser")
            .class_if(!case.frags.is_empty(), "fragmented"),
        Err(e) => Verdict::failed(format!("{e}; input: {}", util::show_bytes(&data, 400))),
    }
}

fn mutation() -> impl Strategy<Value = Mutation> {
    prop_oneof![
        4 => (any::<u16>(), any::<u8>()).prop_map(|(p, b)| Mutation::FlipBit(p, b)),
        2 => any::<u16>().prop_map(Mutation::Truncate),
        2 => (any::<u16>(), any::<u16>()).prop_map(|(p, l)| Mutation::Duplicate(p, l)),
        2 => (any::<u16>(), 1u8..40, any::<u16>()).prop_map(|(p, k, s)| Mutation::InsertRandom(p, k, s)),
        4 => (any::<u16>(), any::<u8>()).prop_map(|(p, w)| Mutation::Extreme(p, w)),
        2 => (any::<u16>(), 1u8..20).prop_map(|(p, k)| Mutation::Delete(p, k)),
        3 => (any::<u16>(), proptest::sample::select(vec![
            b"\r\n".to_vec(), b"\r".to_vec(), b"\n".to_vec(), b"%".to_vec(), b"%00".to_vec(), b"\"".to_vec(), b";".to_vec(), b",".to_vec(), b"=".to_vec(), b"\x00".to_vec(), b"\xff\xfe".to_vec(), b"--B".to_vec(), b"\r\n--B\r\n".to_vec(),
            b"Transfer-Encoding: chunked\r\n".to_vec(), b"Content-Length: 18446744073709551615\r\n".to_vec(), b"q=1.0000".to_vec(), b"*".to_vec(), b"/../".to_vec(), b"bytes=-".to_vec(), b"W/".to_vec(),
        ])).prop_map(|(p, b)| Mutation::Splice(p, b)),
    ]
}

fn case_strategy(target: Target) -> impl Strategy<Value = Case> {
    (any::<u16>(), proptest::collection::vec(mutation(), 0..5), prop_oneof![2 => Just(vec![]), 2 => proptest::collection::vec(any::<u16>(), 1..4), 1 => Just(vec![0u16])]).prop_map(move |(base, muts, frags)| Case { target, base, muts, frags, raw: None })
}

pub fn run(cfg: &RunCfg) -> Report {
    let mut rep = Report::new("C19");
    rep.rule = "structured mutation: valid artefacts per surface (12 HTTP/1 request pipelines hitting a kitchen-sink App with every typed header, ConnectionInfo, cookies, Query / Path / Json / Form / String extractors, Multipart, Files, the ws handshake and Compress; WebSocket frame streams for both roles; multipart bodies; 24 typed-header values x 24 header names; URL paths; server responses read by awc) mutated by 0-4 operations out of bit flip, truncation, duplication, random insertion, deletion, token splices (CR, LF, %, quotes, boundaries, framing headers) and length-field extremes (0, 65535, 65536, 2^32-1, 2^32, 2^63-1, 2^63, 2^64-1, 2^64, -1, 0xff.. / 0x7fff.. for binary fields), delivered whole, in random fragments or byte-wise; plus replay of the committed fuzz corpus; \
                non-trivial = a mutated input that still gets far enough to be accepted by at least one parser behind the first one; distinct by hash of the case"
        .into();
    rep.assumptions = vec![
        "panics are caught by catch_unwind (sync surfaces) or as task panics (async surfaces); overflow checks and debug assertions are on in the harness profile".into(),
        "unbounded loops show as a missed virtual deadline (async surfaces) or as a step budget overrun (ws decoder loop)".into(),
        "allocation bound: < 96 MiB high-water mark per iteration for inputs <= 300 KB (counting allocator, includes the harness's own copies)".into(),
        "panics that are programmer-facing contracts (e.g. ResourceDef::new on a malformed pattern) are not peer input and are not reachable from these entry points".into(),
    ];
    runner::replay_pinned(&mut rep, cfg, &replay);
    runner::replay_regress(&mut rep, cfg, &replay);
    // committed fuzz corpus and crash artifacts are replayed through the same entry points
    replay_corpus(&mut rep, cfg);
    for (t, name, q, th) in [
        (Target::H1Server, "h1-server", 200_000u64, 2_000_000u64),
        (Target::WsStream, "ws-stream", 800_000, 8_000_000),
        (Target::Multipart, "multipart", 600_000, 6_000_000),
        (Target::TypedHeaders, "typed-headers", 1_000_000, 10_000_000),
        (Target::UriPath, "uri-path", 800_000, 8_000_000),
        (Target::ClientResponse, "client-response", 200_000, 2_000_000),
    ] {
        explore(&mut rep, cfg, name, cfg.cases(q, th), move || case_strategy(t), |c| run_case(cfg, c));
    }
    cleanup_tmp();
    // coverage-guided layer: thorough tier (or VP_FUZZ_SECS=n on any tier)
    let secs = std::env::var("VP_FUZZ_SECS").ok().and_then(|s| s.parse::<u64>().ok()).unwrap_or(if cfg.tier == runner::Tier::Thorough { 600 } else { 0 });
    if secs > 0 && rep.violations.is_empty() {
        fuzz_campaign(&mut rep, cfg, secs);
    }
    rep
}

/// Builds the libFuzzer targets of /verif/fuzz (ASan, overflow checks, debug assertions) from the
/// current /repo tree and runs all six for `secs` seconds each, in parallel, from the committed
/// corpus. A crash artifact is a violation (the input is the replay file); a libFuzzer wall-clock
/// timeout / out-of-memory artifact or a build failure is an infrastructure problem, not a violation.
fn fuzz_campaign(rep: &mut Report, cfg: &RunCfg, secs: u64) {
    use std::process::{Command, Stdio};
    let t0 = std::time::Instant::now();
    let fuzz_dir = cfg.root.join("fuzz");
    let target_dir = cfg.root.join("target").join("fuzz");
    let build = Command::new("cargo")
        .args(["+nightly", "fuzz", "build", "--fuzz-dir"])
        .arg(&fuzz_dir)
        .arg("--target-dir")
        .arg(&target_dir)
        .env("CARGO_NET_OFFLINE", "true")
        .env_remove("CARGO_TARGET_DIR")
        .current_dir(&cfg.root)
        .stdout(Stdio::null())
        .stderr(Stdio::piped())
        .output();
    match build {
        Ok(o) if o.status.success() => {}
        Ok(o) => {
            let err = String::from_utf8_lossy(&o.stderr);
            let tail: String = err.lines().rev().take(20).collect::<Vec<_>>().into_iter().rev().collect::<Vec<_>>().join("\n");
            rep.infra_error = Some(format!("cargo fuzz build failed: {tail}"));
            return;
        }
        Err(e) => {
            rep.infra_error = Some(format!("cannot run cargo fuzz: {e}"));
            return;
        }
    }
    let mut children = vec![];
    let fuzz_tmp = cfg.root.join("target").join("tmp").join(format!("c19fuzz-{}", std::process::id()));
    for t in TARGETS {
        let name = dir_of_target(t);
        let work = cfg.root.join("target").join("fuzz-work").join(name);
        let arts = fuzz_dir.join("artifacts").join(name);
        let _ = std::fs::create_dir_all(&work);
        let _ = std::fs::create_dir_all(&arts);
        let before: std::collections::BTreeSet<_> = std::fs::read_dir(&arts).map(|rd| rd.flatten().map(|e| e.file_name()).collect()).unwrap_or_default();
        let log = cfg.root.join("target").join("fuzz-work").join(format!("{name}.log"));
        let logf = std::fs::File::create(&log).unwrap();
        let child = Command::new("cargo")
            .args(["+nightly", "fuzz", "run", "--fuzz-dir"])
            .arg(&fuzz_dir)
            .arg("--target-dir")
            .arg(&target_dir)
            .arg(name)
            .arg(&work)
            .arg(fuzz_dir.join("corpus").join(name))
            .arg("--")
            .arg(format!("-max_total_time={secs}"))
            .arg(format!("-seed={}", cfg.seed.wrapping_add(1) & 0x7fff_ffff))
            .arg(format!("-artifact_prefix={}/", arts.display()))
            .args(["-print_final_stats=1", "-detect_leaks=0", "-report_slow_units=100", "-timeout=120", "-rss_limit_mb=6000", "-len_control=0", "-max_len=70000", "-verbosity=0"])
            .env("CARGO_NET_OFFLINE", "true")
            .env("VP_ROOT", &cfg.root)
            .env("VP_C19_TMP", &fuzz_tmp)
            .env("ASAN_OPTIONS", "detect_leaks=0:allocator_may_return_null=1")
            .env_remove("CARGO_TARGET_DIR")
            .current_dir(&cfg.root)
            .stdout(Stdio::null())
            .stderr(logf)
            .spawn();
        match child {
            Ok(c) => children.push((t, name, c, log, arts, before)),
            Err(e) => {
                rep.infra_error = Some(format!("cannot start fuzz target {name}: {e}"));
                return;
            }
        }
    }
    let mut stats = serde_json::Map::new();
    let mut total = 0u64;
    for (t, name, mut child, log, arts, before) in children {
        let status = child.wait();
        let text = std::fs::read_to_string(&log).unwrap_or_default();
        let grab = |key: &str| text.lines().find_map(|l| l.strip_prefix(key).map(|v| v.trim().parse::<u64>().unwrap_or(0))).unwrap_or(0);
        let execs = grab("stat::number_of_executed_units:");
        let new_units = grab("stat::new_units_added:");
        total += execs;
        let corpus_n = std::fs::read_dir(cfg.root.join("target").join("fuzz-work").join(name)).map(|rd| rd.count()).unwrap_or(0);
        stats.insert(name.to_string(), serde_json::json!({"executions": execs, "new_units_added": new_units, "working_corpus_files": corpus_n, "exit_ok": status.as_ref().map(|s| s.success()).unwrap_or(false)}));
        let after: Vec<_> = std::fs::read_dir(&arts).map(|rd| rd.flatten().map(|e| e.file_name()).collect()).unwrap_or_default();
        let mut fresh: Vec<_> = after.into_iter().filter(|f| !before.contains(f)).collect();
        fresh.sort();
        for f in fresh {
            let path = arts.join(&f);
            let fname = f.to_string_lossy().to_string();
            if fname.starts_with("crash-") {
                // confirm through the plain entry point (gives the readable reason)
                let bytes = std::fs::read(&path).unwrap_or_default();
                let (frags, data) = split_fuzz_input(&bytes);
                let reason = match exercise(t, data, &frags) {
                    Err(e) => e,
                    Ok(_) => format!("libFuzzer/ASan crash in target {name} (not reproduced by the unsanitised entry point; see {})", log.display()),
                };
                rep.violations.push(runner::Violation { phase: format!("fuzz-{name}"), reason, replay: path.display().to_string() });
            } else if fname.starts_with("slow-unit-") || fname.starts_with("leak-") {
                // libFuzzer's slow-unit report depends on machine load and is not a verdict
                let _ = std::fs::remove_file(&path);
            } else if rep.infra_error.is_none() {
                rep.infra_error = Some(format!("fuzz target {name}: libFuzzer reported {fname} (wall-clock timeout / memory limit) - inconclusive, not a violation"));
            }
        }
        if fname_none(&status) && rep.infra_error.is_none() {
            rep.infra_error = Some(format!("fuzz target {name} could not be waited for"));
        }
    }
    rep.evaluations += total;
    rep.phases.push(runner::PhaseInfo { name: "libfuzzer".into(), evaluations: total, nontrivial_distinct: 0, exhaustive: false, wall_s: t0.elapsed().as_secs_f64() });
    let _ = std::fs::remove_dir_all(&fuzz_tmp);
    rep.extra.insert("libfuzzer".into(), serde_json::json!({"seconds_per_target": secs, "sanitizer": "address", "targets": stats}));
    cleanup_tmp();
}

fn fname_none(s: &std::io::Result<std::process::ExitStatus>) -> bool {
    s.is_err()
}

pub fn target_of_dir(name: &str) -> Option<Target> {
    Some(match name {
        "h1_server" => Target::H1Server,
        "ws_stream" => Target::WsStream,
        "multipart" => Target::Multipart,
        "typed_headers" => Target::TypedHeaders,
        "uri_path" => Target::UriPath,
        "client_response" => Target::ClientResponse,
        _ => return None,
    })
}

pub fn dir_of_target(t: Target) -> &'static str {
    match t {
        Target::H1Server => "h1_server",
        Target::WsStream => "ws_stream",
        Target::Multipart => "multipart",
        Target::TypedHeaders => "typed_headers",
        Target::UriPath => "uri_path",
        Target::ClientResponse => "client_response",
    }
}

/// libFuzzer inputs: first byte selects the fragmentation, the rest is the data
pub fn split_fuzz_input(data: &[u8]) -> (Vec<u16>, &[u8]) {
    match data.split_first() {
        None => (vec![], data),
        Some((f, rest)) => {
            let frags = match f % 4 {
                0 => vec![],
                1 => vec![0],
                2 => vec![*f as u16, 3],
                _ => vec![(*f as u16) * 7 + 1],
            };
            (frags, rest)
        }
    }
}

fn replay_corpus(rep: &mut Report, cfg: &RunCfg) {
    let t0 = std::time::Instant::now();
    let mut n = 0u64;
    for sub in ["corpus", "artifacts"] {
        let dir = cfg.root.join("fuzz").join(sub);
        let Ok(rd) = std::fs::read_dir(&dir) else { continue };
        for tdir in rd.flatten() {
            let Some(target) = target_of_dir(&tdir.file_name().to_string_lossy()) else { continue };
            let Ok(files) = std::fs::read_dir(tdir.path()) else { continue };
            let mut paths: Vec<_> = files.flatten().map(|e| e.path()).collect();
            paths.sort();
            for p in paths {
                let Ok(bytes) = std::fs::read(&p) else { continue };
                n += 1;
                let (frags, data) = split_fuzz_input(&bytes);
                if let Err(e) = exercise(target, data, &frags) {
                    rep.violations.push(runner::Violation { phase: "corpus".into(), reason: e, replay: p.display().to_string() });
                }
            }
        }
    }
    rep.evaluations += n;
    rep.phases.push(runner::PhaseInfo { name: "corpus".into(), evaluations: n, nontrivial_distinct: 0, exhaustive: false, wall_s: t0.elapsed().as_secs_f64() });
}

pub fn replay(cfg: &RunCfg, _phase: &str, case: &serde_json::Value) -> Result<Verdict, String> {
    let c: Case = runner::from_json(case)?;
    let v = run_case(cfg, &c);
    cleanup_tmp();
    Ok(v)
}
