//! C12 — body extractors never accept or buffer more than their limit.
//!
//! The buffering extractors (`Bytes`, `String`, `Json<T>`, `Form<T>`, `Payload::to_bytes_limited`,
//! `body::to_bytes_limited`, `MultipartForm` with in-memory fields) are called through their
//! public `FromRequest` entry points with a scripted streaming payload that counts how far it was
//! pulled. Body lengths sit at limit-1 / limit / limit+1 / 2x / 64x the limit, with every
//! chunking class, declared / absent / lying Content-Length and identity / gzip / deflate / br /
//! zstd content codings (bodies encoded with the codec libraries directly).

use std::io::Write as _;

use actix_web::{
    dev,
    http::header,
    web::{self, FormConfig, JsonConfig, PayloadConfig},
    FromRequest as _,
};
use bytes::Bytes;
use proptest::prelude::*;
use serde::{Deserialize, Serialize};

use crate::{
    runner::{self, explore, Report, RunCfg, Verdict},
    streams::{self, RunEnd, ScriptedStream, StreamEnd},
    util,
};

#[derive(Debug, Clone, Copy, Serialize, Deserialize, PartialEq, Eq, Hash)]
pub enum Extractor {
    Bytes,
    String,
    Json,
    Form,
    PayloadToBytesLimited,
    BodyToBytesLimited,
    MultipartForm,
}

#[derive(Debug, Clone, Copy, Serialize, Deserialize, PartialEq, Eq, Hash)]
pub enum Coding {
    Identity,
    Gzip,
    Deflate,
    Br,
    Zstd,
}

#[derive(Debug, Clone, Copy, Serialize, Deserialize, PartialEq, Eq, Hash)]
pub enum Declared {
    Absent,
    True,
    /// declares fewer bytes than are sent
    LyingLow,
    /// declares more than the limit although the body is small
    LyingHigh,
}

#[derive(Debug, Clone, Serialize, Deserialize, PartialEq, Eq, Hash)]
pub enum Chunking {
    One,
    OneByte,
    /// chunks of this size
    Fixed(u32),
    /// a chunk boundary exactly at the limit (in wire bytes), rest in one chunk
    AtLimit,
    Cuts(Vec<u16>),
}

#[derive(Debug, Clone, Serialize, Deserialize)]
pub struct Case {
    pub ex: Extractor,
    pub limit: u32,
    /// decoded body length = limit + delta (clamped at 0) or limit * factor
    pub delta: i32,
    pub factor: u8,
    pub valid_content: bool,
    pub compressible: bool,
    pub coding: Coding,
    pub declared: Declared,
    pub chunking: Chunking,
    pub pendings: Vec<u8>,
    /// second in-memory field of the multipart form (bytes)
    pub mp_second: u32,
    pub mp_memory_limit: u32,
}

#[derive(Debug, Deserialize, PartialEq)]
struct FormData {
    k: String,
}

mod mpform {
    use actix_multipart::form::{bytes::Bytes, text::Text, MultipartForm};
    #[derive(MultipartForm)]
    pub struct Upload {
        #[multipart(limit = "4KiB")]
        pub a: Bytes,
        pub b: Text<String>,
    }
    /// repeatable fields: a field-level limit is documented to be shared by all parts of that name
    #[derive(MultipartForm)]
    pub struct Many {
        #[multipart(limit = "4KiB")]
        pub a: Vec<Bytes>,
        #[multipart(limit = "1KiB")]
        pub b: Vec<Text<String>>,
    }
}

/// Parts named `a` / `b` in any order and number against `Many`: the bytes of all parts of one
/// name count against that name's limit, all of them against the form's memory limit.
#[derive(Debug, Clone, Serialize, Deserialize)]
pub struct ManyCase {
    /// (0 = a, 1 = b; length)
    pub parts: Vec<(u8, u32)>,
    pub memory_limit: u32,
    pub cuts: Vec<u16>,
    pub pendings: Vec<u8>,
}

pub fn run_many(_cfg: &RunCfg, case: &ManyCase) -> Verdict {
    let mut wire = vec![];
    let mut sum = [0usize; 2];
    let mut counts = [0usize; 2];
    let mut first_over: Option<usize> = None;
    let mut total = 0usize;
    for (i, (name, len)) in case.parts.iter().enumerate() {
        let k = (*name % 2) as usize;
        wire.extend_from_slice(format!("--XBOUND\r\nContent-Disposition: form-data; name=\"{}\"\r\n\r\n", if k == 0 { "a" } else { "b" }).as_bytes());
        wire.extend(std::iter::repeat(if k == 0 { b'a' } else { b'b' }).take(*len as usize));
        wire.extend_from_slice(b"\r\n");
        sum[k] += *len as usize;
        counts[k] += 1;
        total += *len as usize;
        if first_over.is_none() && (sum[0] > 4096 || sum[1] > 1024 || total > case.memory_limit as usize) {
            first_over = Some(i);
        }
    }
    wire.extend_from_slice(b"--XBOUND--\r\n");
    let over = first_over.is_some();
    let interleaved = case.parts.windows(3).any(|w| w[0].0 % 2 == w[2].0 % 2 && w[0].0 % 2 != w[1].0 % 2);
    let v = Verdict::ok()
        .nt(case.parts.len() >= 2)
        .class("multipart-many")
        .class_if(over, "over-limit")
        .class_if(!over, "within-limit")
        .class_if(interleaved, "same-name-parts-interleaved-with-another-name")
        .class_if(sum[0] > 4096 && case.parts.iter().all(|(n, l)| n % 2 != 0 || *l <= 4096), "field-limit-exceeded-only-in-sum");
    let mut outcomes = vec![];
    for whole in [false, true] {
        let cuts: Vec<usize> = if whole { vec![] } else { case.cuts.iter().map(|c| util_pick(*c, wire.len())).collect() };
        let mut cuts = cuts;
        cuts.sort();
        cuts.dedup();
        let chunks = streams::split_at(&wire, &cuts);
        let pend: Vec<u8> = (0..chunks.len() + 1).map(|i| case.pendings.get(i % case.pendings.len().max(1)).copied().unwrap_or(0)).collect();
        let (stream, _stats) = ScriptedStream::new(chunks, pend, StreamEnd::Eof);
        let req = actix_web::test::TestRequest::post()
            .insert_header((header::CONTENT_TYPE, "multipart/form-data; boundary=XBOUND"))
            .app_data(actix_multipart::form::MultipartFormConfig::default().memory_limit(case.memory_limit as usize).total_limit(1 << 30))
            .to_http_request();
        let fut = async move {
            let boxed: std::pin::Pin<Box<dyn futures_core::Stream<Item = Result<Bytes, actix_web::error::PayloadError>>>> = Box::pin(stream);
            let mut pl = dev::Payload::Stream { payload: boxed };
            match actix_multipart::form::MultipartForm::<mpform::Many>::from_request(&req, &mut pl).await {
                Ok(f) => Ok((f.0.a.iter().map(|b| b.data.len()).collect::<Vec<_>>(), f.0.b.iter().map(|t| t.0.len()).collect::<Vec<_>>())),
                Err(e) => Err(format!("{e:?}")),
            }
        };
        let res = match streams::run_local(120_000, fut) {
            RunEnd::Done(o) => o,
            RunEnd::Hang => return v.fail_with(format!("MultipartForm never completed (parts {:?})", case.parts)),
            RunEnd::Panicked(p) => return v.fail_with(format!("panic: {p}")),
        };
        let ctx = || format!("[parts (name, len) {:?}; limits a 4096 / b 1024 / memory {}; sums a {} b {}; {}]", case.parts, case.memory_limit, sum[0], sum[1], if whole { "one chunk" } else { "cut" });
        match &res {
            Ok((a, b)) => {
                if over {
                    return v.fail_with(format!("MultipartForm accepted a form over its limits {}", ctx()));
                }
                let want_a: Vec<usize> = case.parts.iter().filter(|(n, _)| n % 2 == 0).map(|(_, l)| *l as usize).collect();
                let want_b: Vec<usize> = case.parts.iter().filter(|(n, _)| n % 2 == 1).map(|(_, l)| *l as usize).collect();
                if *a != want_a || *b != want_b {
                    return v.fail_with(format!("MultipartForm delivered parts of lengths a {a:?} b {b:?} {}", ctx()));
                }
            }
            Err(e) => {
                if !over {
                    return v.fail_with(format!("MultipartForm rejected a form within its limits: {e} {}", ctx()));
                }
            }
        }
        outcomes.push(res.is_ok());
    }
    if outcomes[0] != outcomes[1] {
        return v.fail_with(format!("the outcome depends on the chunking (parts {:?})", case.parts));
    }
    v
}

fn util_pick(sel: u16, len: usize) -> usize {
    crate::util::pick_idx(sel, len + 1)
}

fn many_strategy() -> impl Strategy<Value = ManyCase> {
    (
        proptest::collection::vec((0u8..2, prop_oneof![2 => 0u32..50, 3 => 500u32..1100, 3 => 1300u32..2200, 1 => 4000u32..4200]), 1..7),
        prop_oneof![3 => Just(1u32 << 20), 1 => Just(5000u32), 1 => 1u32..9000],
        proptest::collection::vec(any::<u16>(), 0..6),
        proptest::collection::vec(0u8..3, 1..4),
    )
        .prop_map(|(parts, memory_limit, cuts, pendings)| ManyCase { parts, memory_limit, cuts, pendings })
}

fn encode(coding: Coding, data: &[u8]) -> Vec<u8> {
    match coding {
        Coding::Identity => data.to_vec(),
        Coding::Gzip => {
            let mut e = flate2::write::GzEncoder::new(Vec::new(), flate2::Compression::fast());
            e.write_all(data).unwrap();
            e.finish().unwrap()
        }
        Coding::Deflate => {
            let mut e = flate2::write::ZlibEncoder::new(Vec::new(), flate2::Compression::fast());
            e.write_all(data).unwrap();
            e.finish().unwrap()
        }
        Coding::Br => {
            let mut out = Vec::new();
            {
                let mut w = brotli::CompressorWriter::new(&mut out, 4096, 3, 20);
                w.write_all(data).unwrap();
            }
            out
        }
        Coding::Zstd => zstd::encode_all(data, 1).unwrap(),
    }
}

/// decoded length available after each wire chunk (streaming decode with the codec library)
fn decoded_after_each(coding: Coding, chunks: &[Bytes]) -> Vec<usize> {
    let mut out = vec![];
    match coding {
        Coding::Identity => {
            let mut n = 0;
            for c in chunks {
                n += c.len();
                out.push(n);
            }
        }
        Coding::Gzip => {
            let mut d = flate2::write::GzDecoder::new(Vec::new());
            for c in chunks {
                let _ = d.write_all(c);
                let _ = d.flush();
                out.push(d.get_ref().len());
            }
        }
        Coding::Deflate => {
            let mut d = flate2::write::ZlibDecoder::new(Vec::new());
            for c in chunks {
                let _ = d.write_all(c);
                let _ = d.flush();
                out.push(d.get_ref().len());
            }
        }
        Coding::Br => {
            let mut d = brotli::DecompressorWriter::new(Vec::new(), 4096);
            for c in chunks {
                let _ = d.write_all(c);
                let _ = d.flush();
                out.push(d.get_ref().len());
            }
        }
        Coding::Zstd => {
            let mut d = zstd::stream::write::Decoder::new(Vec::new()).unwrap();
            for c in chunks {
                let _ = d.write_all(c);
                let _ = d.flush();
                out.push(d.get_ref().len());
            }
        }
    }
    out
}

#[derive(Debug, Clone, PartialEq)]
enum Outcome {
    OkEqual,
    OkDifferent(String),
    Overflow(String),
    OtherErr(String),
    Hang,
    Panic(String),
}

fn classify_err(text: String, status: Option<u16>) -> Outcome {
    if text.contains("Overflow") || text.contains("BodyLimitExceeded") || status == Some(413) {
        Outcome::Overflow(text)
    } else {
        Outcome::OtherErr(text)
    }
}

/// (decoded body, content type)
fn make_body(case: &Case) -> (Vec<u8>, &'static str) {
    let len = if case.factor > 1 { case.limit as usize * case.factor as usize } else { (case.limit as i64 + case.delta as i64).max(0) as usize };
    let fill = |n: usize| -> Vec<u8> {
        if case.compressible {
            vec![b'a'; n]
        } else {
            (0..n).map(|i| b'a' + util::data_byte(9, i as u64) % 26).collect()
        }
    };
    match case.ex {
        Extractor::Json => {
            // a JSON string of exactly `len` bytes (when len >= 2)
            let mut v = if len >= 2 { [b"\"".to_vec(), fill(len - 2), b"\"".to_vec()].concat() } else { fill(len) };
            if !case.valid_content && !v.is_empty() {
                v[0] = b'{';
            }
            (v, "application/json")
        }
        Extractor::Form => {
            let mut v = if len >= 2 { [b"k=".to_vec(), fill(len - 2)].concat() } else { fill(len) };
            if !case.valid_content && v.len() >= 2 {
                v[0] = b'z';
            }
            (v, "application/x-www-form-urlencoded")
        }
        _ => (fill(len), "application/octet-stream"),
    }
}

fn cut_chunks(wire: &[u8], chunking: &Chunking, limit: usize) -> Vec<Bytes> {
    let n = wire.len();
    let cuts: Vec<usize> = match chunking {
        Chunking::One => vec![],
        Chunking::OneByte => {
            if n <= 5000 {
                (1..n).collect()
            } else {
                (1..n).step_by(n / 5000 + 1).collect()
            }
        }
        Chunking::Fixed(k) => (1..n).filter(|i| i % (*k as usize).max(1) == 0).collect(),
        Chunking::AtLimit => vec![limit.min(n)],
        Chunking::Cuts(c) => c.iter().map(|x| util::pick_idx(*x, n + 1)).collect(),
    };
    streams::split_at(wire, &cuts)
}

struct RunResult {
    outcome: Outcome,
    chunks_pulled: usize,
    chunks_total: usize,
}

fn run_once(case: &Case, chunking: &Chunking) -> (RunResult, Vec<usize>) {
    let limit = case.limit as usize;
    let (body, ctype) = make_body(case);
    let (wire, ctype_full): (Vec<u8>, String) = if case.ex == Extractor::MultipartForm {
        // two in-memory fields; the limit under test is the form's memory limit
        let second = vec![b'b'; case.mp_second as usize];
        let mut w = vec![];
        w.extend_from_slice(b"--XBOUND\r\nContent-Disposition: form-data; name=\"a\"\r\n\r\n");
        w.extend_from_slice(&body);
        w.extend_from_slice(b"\r\n--XBOUND\r\nContent-Disposition: form-data; name=\"b\"\r\n\r\n");
        w.extend_from_slice(&second);
        w.extend_from_slice(b"\r\n--XBOUND--\r\n");
        (w, "multipart/form-data; boundary=XBOUND".to_string())
    } else {
        (encode(case.coding, &body), ctype.to_string())
    };
    let chunks = cut_chunks(&wire, chunking, limit);
    let decoded_cum = if case.ex == Extractor::MultipartForm { vec![] } else { decoded_after_each(case.coding, &chunks) };
    let chunks_total = chunks.len();
    let pend: Vec<u8> = (0..chunks.len() + 1).map(|i| case.pendings.get(i % case.pendings.len().max(1)).copied().unwrap_or(0)).collect();
    let (stream, stats) = ScriptedStream::new(chunks, pend, StreamEnd::Eof);
    let mut req = actix_web::test::TestRequest::post().insert_header((header::CONTENT_TYPE, ctype_full));
    if case.coding != Coding::Identity && case.ex != Extractor::MultipartForm {
        req = req.insert_header((
            header::CONTENT_ENCODING,
            match case.coding {
                Coding::Gzip => "gzip",
                Coding::Deflate => "deflate",
                Coding::Br => "br",
                _ => "zstd",
            },
        ));
    }
    match case.declared {
        Declared::Absent => {}
        Declared::True => req = req.insert_header((header::CONTENT_LENGTH, wire.len().to_string())),
        Declared::LyingLow => req = req.insert_header((header::CONTENT_LENGTH, (wire.len() / 2).min(limit).to_string())),
        Declared::LyingHigh => req = req.insert_header((header::CONTENT_LENGTH, (limit * 3 + 7).to_string())),
    }
    let req = req
        .app_data(PayloadConfig::new(limit))
        .app_data(JsonConfig::default().limit(limit))
        .app_data(FormConfig::default().limit(limit))
        .app_data(actix_multipart::form::MultipartFormConfig::default().memory_limit(case.mp_memory_limit as usize).total_limit(1 << 30))
        .to_http_request();
    let ex = case.ex;
    let body2 = body.clone();
    let second_len = case.mp_second as usize;
    let fut = async move {
        let boxed: std::pin::Pin<Box<dyn futures_core::Stream<Item = Result<Bytes, actix_web::error::PayloadError>>>> = Box::pin(stream);
        let mut pl = dev::Payload::Stream { payload: boxed };
        let err_of = |e: actix_web::Error| {
            let status = e.as_response_error().status_code().as_u16();
            classify_err(format!("{e:?}"), Some(status))
        };
        match ex {
            Extractor::Bytes => match web::Bytes::from_request(&req, &mut pl).await {
                Ok(b) => {
                    if b[..] == body2[..] {
                        Outcome::OkEqual
                    } else {
                        Outcome::OkDifferent(format!("{} bytes", b.len()))
                    }
                }
                Err(e) => err_of(e),
            },
            Extractor::String => match String::from_request(&req, &mut pl).await {
                Ok(s) => {
                    if s.as_bytes() == &body2[..] {
                        Outcome::OkEqual
                    } else {
                        Outcome::OkDifferent(format!("{} bytes", s.len()))
                    }
                }
                Err(e) => err_of(e),
            },
            Extractor::Json => match web::Json::<String>::from_request(&req, &mut pl).await {
                Ok(j) => {
                    if body2.len() >= 2 && j.0.as_bytes() == &body2[1..body2.len() - 1] {
                        Outcome::OkEqual
                    } else {
                        Outcome::OkDifferent(format!("{} bytes", j.0.len()))
                    }
                }
                Err(e) => err_of(e),
            },
            Extractor::Form => match web::Form::<FormData>::from_request(&req, &mut pl).await {
                Ok(f) => {
                    if body2.len() >= 2 && f.0.k.as_bytes() == &body2[2..] {
                        Outcome::OkEqual
                    } else {
                        Outcome::OkDifferent(format!("{} bytes", f.0.k.len()))
                    }
                }
                Err(e) => err_of(e),
            },
            Extractor::PayloadToBytesLimited => {
                let p = web::Payload::from_request(&req, &mut pl).await.unwrap();
                match p.to_bytes_limited(limit).await {
                    Ok(Ok(b)) => {
                        if b[..] == body2[..] {
                            Outcome::OkEqual
                        } else {
                            Outcome::OkDifferent(format!("{} bytes", b.len()))
                        }
                    }
                    Ok(Err(e)) => err_of(e),
                    Err(e) => Outcome::Overflow(format!("{e:?}")),
                }
            }
            Extractor::BodyToBytesLimited => {
                let body = actix_web::body::BodyStream::new(pl);
                match actix_web::body::to_bytes_limited(body, limit).await {
                    Ok(Ok(b)) => {
                        if b[..] == body2[..] {
                            Outcome::OkEqual
                        } else {
                            Outcome::OkDifferent(format!("{} bytes", b.len()))
                        }
                    }
                    Ok(Err(e)) => Outcome::OtherErr(format!("{e:?}")),
                    Err(e) => Outcome::Overflow(format!("{e:?}")),
                }
            }
            Extractor::MultipartForm => match actix_multipart::form::MultipartForm::<mpform::Upload>::from_request(&req, &mut pl).await {
                Ok(f) => {
                    if f.0.a.data[..] == body2[..] && f.0.b.0.len() == second_len {
                        Outcome::OkEqual
                    } else {
                        Outcome::OkDifferent(format!("a: {} bytes, b: {} bytes", f.0.a.data.len(), f.0.b.0.len()))
                    }
                }
                Err(e) => err_of(e),
            },
        }
    };
    let outcome = match streams::run_local(120_000, fut) {
        RunEnd::Done(o) => o,
        RunEnd::Hang => Outcome::Hang,
        RunEnd::Panicked(p) => Outcome::Panic(p),
    };
    let chunks_pulled = stats.borrow().chunks;
    (RunResult { outcome, chunks_pulled, chunks_total }, decoded_cum)
}

pub fn run_case(_cfg: &RunCfg, case: &Case) -> Verdict {
    let limit = case.limit as usize;
    let (body, _) = make_body(case);
    let decoded_len = body.len();
    // PayloadToBytesLimited reads the raw payload (no content decoding)
    let coding_applies = !matches!(case.ex, Extractor::PayloadToBytesLimited | Extractor::BodyToBytesLimited | Extractor::MultipartForm);
    let mut case = case.clone();
    if !coding_applies {
        case.coding = Coding::Identity;
    }
    let case = &case;
    let wire_len = if case.ex == Extractor::MultipartForm { 0 } else { encode(case.coding, &body).len() };
    // what the limit applies to
    let over = match case.ex {
        Extractor::MultipartForm => {
            decoded_len > 4096 || decoded_len + case.mp_second as usize > case.mp_memory_limit as usize
        }
        _ => decoded_len > limit,
    };
    let v = Verdict::ok()
        .nt(
            (decoded_len as i64 - limit as i64).abs() <= 1
                || (over && matches!(case.declared, Declared::Absent | Declared::LyingLow))
                || (case.coding != Coding::Identity && wire_len <= limit && decoded_len > limit)
                || case.ex == Extractor::MultipartForm,
        )
        .class_if(over, "over-limit")
        .class_if(!over, "within-limit")
        .class_if(case.coding != Coding::Identity, "content-encoded")
        .class_if(case.coding != Coding::Identity && wire_len <= limit && decoded_len > limit, "small-on-the-wire-large-decoded")
        .class_if(matches!(case.declared, Declared::LyingLow), "content-length-lies-low")
        .class_if(matches!(case.declared, Declared::Absent), "no-content-length");
    let mut results = vec![];
    let chunkings = [case.chunking.clone(), Chunking::One];
    for ch in chunkings.iter() {
        let (r, decoded_cum) = run_once(case, ch);
        let ctx = || format!("[{:?} limit {limit}, decoded {decoded_len} bytes, wire {wire_len} bytes, coding {:?}, Content-Length {:?}, chunking {ch:?} ({} chunks)]", case.ex, case.coding, case.declared, r.chunks_total);
        match &r.outcome {
            Outcome::Panic(p) => return v.fail_with(format!("panic: {p} {}", ctx())),
            Outcome::Hang => return v.fail_with(format!("extractor never completed {}", ctx())),
            Outcome::OkDifferent(d) => return v.fail_with(format!("extractor succeeded with a different value ({d}) {}", ctx())),
            Outcome::OkEqual => {
                if over {
                    return v.fail_with(format!("extractor accepted a body over its limit {}", ctx()));
                }
            }
            Outcome::Overflow(_) => {
                // failing early on a declared length above the limit is allowed
                let declared_over = match case.declared {
                    Declared::LyingHigh => true,
                    Declared::True => wire_len > limit,
                    _ => false,
                };
                if !over && !declared_over {
                    return v.fail_with(format!("overflow error for a body within the limit {}", ctx()));
                }
            }
            Outcome::OtherErr(e) => {
                if over {
                    return v.fail_with(format!("body over the limit failed with {e} instead of the overflow error {}", ctx()));
                }
                // within the limit: only invalid content (or a lying length) may fail
                let excused = !case.valid_content && matches!(case.ex, Extractor::Json | Extractor::Form)
                    || matches!(case.declared, Declared::LyingLow | Declared::LyingHigh)
                    || (matches!(case.ex, Extractor::Json | Extractor::Form) && decoded_len < 2)
                    || (case.ex == Extractor::Json && decoded_len == 2 && false);
                if !excused {
                    return v.fail_with(format!("body within the limit failed with {e} {}", ctx()));
                }
            }
        }
        // bounded pull: not beyond the chunk in which the decoded length first exceeds the limit,
        // plus one more chunk (+1 for the decoder's own look-ahead)
        if over && case.ex != Extractor::MultipartForm {
            if let Some(k) = decoded_cum.iter().position(|d| *d > limit) {
                if r.chunks_pulled > k + 1 + 2 {
                    return v.fail_with(format!(
                        "the payload stream was pulled for {} chunks although the decoded length exceeded the limit within chunk {} {}",
                        r.chunks_pulled,
                        k + 1,
                        ctx()
                    ));
                }
            }
        }
        results.push(std::mem::discriminant(&r.outcome));
    }
    if results.windows(2).any(|w| w[0] != w[1]) {
        return v.fail_with(format!("the outcome depends on the chunking: {:?} (limit {limit}, decoded {decoded_len})", case.chunking));
    }
    v
}

fn case_strategy() -> impl Strategy<Value = Case> {
    (
        prop_oneof![
            3 => Just(Extractor::Bytes),
            2 => Just(Extractor::String),
            3 => Just(Extractor::Json),
            3 => Just(Extractor::Form),
            2 => Just(Extractor::PayloadToBytesLimited),
            2 => Just(Extractor::BodyToBytesLimited),
            2 => Just(Extractor::MultipartForm),
        ],
        prop_oneof![1 => Just(0u32), 1 => Just(1u32), 2 => Just(7u32), 3 => Just(1024u32), 1 => Just(262_144u32), 2 => 2u32..5000],
        prop_oneof![3 => -1i32..=1, 1 => -20i32..20],
        prop_oneof![5 => Just(1u8), 2 => Just(2u8), 1 => Just(64u8)],
        proptest::bool::weighted(0.85),
        any::<bool>(),
        prop_oneof![4 => Just(Coding::Identity), 1 => Just(Coding::Gzip), 1 => Just(Coding::Deflate), 1 => Just(Coding::Br), 1 => Just(Coding::Zstd)],
        prop_oneof![3 => Just(Declared::Absent), 3 => Just(Declared::True), 2 => Just(Declared::LyingLow), 1 => Just(Declared::LyingHigh)],
        prop_oneof![
            2 => Just(Chunking::One),
            2 => Just(Chunking::OneByte),
            2 => prop_oneof![Just(2u32), Just(100u32), Just(1000u32), 1u32..3000].prop_map(Chunking::Fixed),
            2 => Just(Chunking::AtLimit),
            2 => proptest::collection::vec(any::<u16>(), 1..6).prop_map(Chunking::Cuts),
        ],
        proptest::collection::vec(0u8..3, 1..4),
        prop_oneof![Just(0u32), 0u32..3000],
        prop_oneof![Just(1024u32), Just(4096u32), Just(5000u32), 1u32..9000],
    )
        .prop_map(|(ex, limit, delta, factor, valid_content, compressible, coding, declared, chunking, pendings, mp_second, mp_memory_limit)| {
            let mut c = Case { ex, limit, delta, factor, valid_content, compressible, coding, declared, chunking, pendings, mp_second, mp_memory_limit };
            // keep the volume of the 64x class reasonable
            if c.factor == 64 && c.limit > 5000 {
                c.factor = 2;
            }
            if c.ex == Extractor::MultipartForm {
                // the field limit under test is 4 KiB; sizes around it and around the memory limit
                c.limit = if c.delta % 2 == 0 { 4096 } else { c.mp_memory_limit.saturating_sub(c.mp_second).max(1) };
                c.declared = Declared::Absent;
            }
            c
        })
}

pub fn run(cfg: &RunCfg) -> Report {
    let mut rep = Report::new("C12");
    rep.rule = "cases = extractor (Bytes, String, Json<String>, Form<{k}>, Payload::to_bytes_limited, body::to_bytes_limited, MultipartForm{a: Bytes limit 4 KiB, b: Text} with memory_limit) x limit 0/1/7/1024/262144/random x decoded length limit-1/limit/limit+1/limit+-20/2x/64x x valid or invalid content x compressible or not x coding identity/gzip/deflate/br/zstd (encoded with the codec libraries) x Content-Length absent/true/lying low/lying high x chunking one/1-byte/fixed size/boundary exactly at the limit/random cuts with Pending patterns; each case is run with its chunking and as one chunk; phase multipart-many: 1-6 parts named a / b in any order against MultipartForm{a: Vec<Bytes> limit 4 KiB, b: Vec<Text> limit 1 KiB} with memory_limit (a field limit is shared by all parts of one name); \
                non-trivial = decoded length within 1 of the limit, or over the limit with no or a lying-low Content-Length, or a compressed body small on the wire but over the limit when decoded, or a multipart form; distinct by hash of the case"
        .into();
    rep.assumptions = vec![
        "overflow kind = error text containing Overflow / BodyLimitExceeded or HTTP status 413".into(),
        "a declared Content-Length above the limit may fail early even if the real body is short".into(),
        "bounded pull is counted in source chunks: not more than 2 chunks beyond the one in which the cumulative decoded length (computed with the codec library, streaming) first exceeds the limit".into(),
        "Payload::to_bytes_limited and body::to_bytes_limited read the raw payload; content codings apply to the other extractors".into(),
    ];
    runner::replay_pinned(&mut rep, cfg, &replay);
    runner::replay_regress(&mut rep, cfg, &replay);
    explore(&mut rep, cfg, "extract", cfg.cases(30_000, 600_000), case_strategy, |c| run_case(cfg, c));
    explore(&mut rep, cfg, "multipart-many", cfg.cases(200_000, 4_000_000), many_strategy, |c| run_many(cfg, c));
    rep
}

pub fn replay(cfg: &RunCfg, phase: &str, case: &serde_json::Value) -> Result<Verdict, String> {
    if phase == "multipart-many" || case.get("parts").is_some() {
        let c: ManyCase = runner::from_json(case)?;
        return Ok(run_many(cfg, &c));
    }
    let c: Case = runner::from_json(case)?;
    Ok(run_case(cfg, &c))
}
