//! C07 — request-body channel (`h1::Payload` / `PayloadSender`): exact bytes, truthful ending, no
//! lost wake-ups.
//!
//! Model-based: operation sequences over the public pair returned by `h1::Payload::create(false)`
//! are executed against the real channel and a small reference model. All sequences over a
//! 10-letter alphabet are enumerated exhaustively up to a depth bound (small-scope), and long
//! random sequences with the full size menu are generated with proptest.

use std::{
    collections::VecDeque,
    pin::Pin,
    sync::{
        atomic::{AtomicUsize, Ordering},
        Arc,
    },
    task::{Context, Poll, Wake, Waker},
};

use actix_http::{error::PayloadError, h1};
use bytes::Bytes;
use futures_core::Stream;
use proptest::prelude::*;
use serde::{Deserialize, Serialize};

use crate::{
    runner::{self, enumerate, explore, Report, RunCfg, Verdict},
    util,
};

const MARK: usize = 32_768;

#[derive(Debug, Clone, Copy, Serialize, Deserialize, PartialEq, Eq, Hash)]
pub enum Op {
    Feed(u32),
    FeedEof,
    /// 0 = Incomplete, 1 = EncodingCorrupted, 2 = Overflow
    SetError(u8),
    DropSender,
    NeedRead,
    /// poll the reader; `fresh` = with a waker never used before
    Poll { fresh: bool },
    Unread(u32),
    DropReader,
}

const ALPHABET: [Op; 10] = [
    Op::Feed(1),
    Op::Feed(32_768),
    Op::FeedEof,
    Op::SetError(1),
    Op::DropSender,
    Op::NeedRead,
    Op::Poll { fresh: false },
    Op::Poll { fresh: true },
    Op::Unread(1),
    Op::DropReader,
];

#[derive(Debug, Clone, Serialize, Deserialize)]
pub enum Case {
    Seq(Vec<Op>),
    /// all sequences that start with `prefix` and have `depth` ops over the small alphabet
    Subtree { prefix: Vec<u8>, depth: u8 },
}

struct CountWaker(AtomicUsize);
impl Wake for CountWaker {
    fn wake(self: Arc<Self>) {
        self.0.fetch_add(1, Ordering::SeqCst);
    }
    fn wake_by_ref(self: &Arc<Self>) {
        self.0.fetch_add(1, Ordering::SeqCst);
    }
}

fn err_kind(e: &PayloadError) -> u8 {
    match e {
        PayloadError::Incomplete(_) => 0,
        PayloadError::EncodingCorrupted => 1,
        PayloadError::Overflow => 2,
        _ => 9,
    }
}

fn mk_err(k: u8) -> PayloadError {
    match k {
        0 => PayloadError::Incomplete(None),
        1 => PayloadError::EncodingCorrupted,
        _ => PayloadError::Overflow,
    }
}

fn chunk_bytes(id: u64, len: usize) -> Bytes {
    // cheap but position- and id-dependent content
    let mut v = vec![0u8; len];
    for (i, b) in v.iter_mut().enumerate() {
        *b = (id as u8).wrapping_mul(31).wrapping_add(i as u8).wrapping_add((i >> 8) as u8);
    }
    Bytes::from(v)
}

#[derive(Default)]
struct Stats {
    nontrivial: bool,
    pending_then_event: bool,
    crossed_mark: bool,
    unclean_end: bool,
}

/// Execute one sequence; `Err(msg)` on the first disagreement with the model.
fn run_seq(ops: &[Op]) -> Result<Stats, String> {
    let (sender, payload) = h1::Payload::create(false);
    let mut sender = Some(sender);
    let mut payload = Some(payload);

    // ---- model
    let mut q: VecDeque<Bytes> = VecDeque::new();
    let mut buffered: usize = 0;
    let mut m_eof = false;
    let mut m_err: Option<u8> = None;
    let mut m_need_read = true;
    let mut sender_closed = false; // FeedEof / SetError / DropSender happened
    let mut misuse = false; // sender used after it closed the body (callers never do)
    let mut next_id = 0u64;

    // ---- wake bookkeeping
    let io_w = Arc::new(CountWaker(AtomicUsize::new(0)));
    let io_waker = Waker::from(io_w.clone());
    let mut rd_w = Arc::new(CountWaker(AtomicUsize::new(0)));
    let mut rd_waker = Waker::from(rd_w.clone());
    // Some(count at the time of the Pending poll) while the reader waits
    let mut reader_waiting: Option<(Arc<CountWaker>, usize)> = None;
    // Some(count) while the feeder was told to pause
    let mut feeder_paused: Option<usize> = None;

    let mut st = Stats::default();

    for (step, op) in ops.iter().enumerate() {
        let ctx = |what: &str| format!("step {step} ({op:?}) of {ops:?}: {what}");
        match *op {
            Op::Feed(n) => {
                let Some(s) = sender.as_mut() else { continue };
                if sender_closed {
                    misuse = true;
                }
                let b = chunk_bytes(next_id, n as usize);
                next_id += 1;
                s.feed_data(b.clone());
                if payload.is_some() {
                    q.push_back(b);
                    buffered += n as usize;
                    m_need_read = buffered < MARK;
                    if buffered >= MARK {
                        st.crossed_mark = true;
                    }
                }
            }
            Op::FeedEof => {
                let Some(s) = sender.as_mut() else { continue };
                s.feed_eof();
                m_eof = true;
                sender_closed = true;
            }
            Op::SetError(k) => {
                let Some(s) = sender.as_mut() else { continue };
                if sender_closed {
                    misuse = true;
                }
                s.set_error(mk_err(k));
                m_err = Some(k);
                sender_closed = true;
                st.unclean_end = true;
            }
            Op::DropSender => {
                if sender.take().is_none() {
                    continue;
                }
                if !sender_closed {
                    m_err = Some(0);
                    sender_closed = true;
                    st.unclean_end = true;
                } else {
                    // closing an already closed body is not an event
                    continue;
                }
            }
            Op::NeedRead => {
                let Some(s) = sender.as_ref() else { continue };
                let mut cx = Context::from_waker(&io_waker);
                let got = format!("{:?}", s.need_read(&mut cx));
                let want = if payload.is_none() {
                    "Dropped"
                } else if m_need_read {
                    "Read"
                } else {
                    "Pause"
                };
                if got != want && !misuse {
                    return Err(ctx(&format!(
                        "need_read says {got}, model says {want} (buffered {buffered} bytes, reader alive: {})",
                        payload.is_some()
                    )));
                }
                if got == "Pause" {
                    feeder_paused = Some(io_w.0.load(Ordering::SeqCst));
                } else {
                    feeder_paused = None;
                }
                continue;
            }
            Op::Poll { fresh } => {
                let Some(p) = payload.as_mut() else { continue };
                if fresh {
                    rd_w = Arc::new(CountWaker(AtomicUsize::new(0)));
                    rd_waker = Waker::from(rd_w.clone());
                }
                let mut cx = Context::from_waker(&rd_waker);
                let got = Pin::new(p).poll_next(&mut cx);
                // model
                if let Some(front) = q.pop_front() {
                    buffered -= front.len();
                    m_need_read = buffered < MARK;
                    match got {
                        Poll::Ready(Some(Ok(b))) if b == front => {}
                        other => {
                            return Err(ctx(&format!(
                                "reader should get the next fed chunk ({} bytes) but got {}",
                                front.len(),
                                show(&other)
                            )))
                        }
                    }
                    reader_waiting = None;
                    // the feeder was told to pause and the reader has now drained below the mark
                    if let Some(c0) = feeder_paused {
                        if buffered < MARK {
                            if io_w.0.load(Ordering::SeqCst) == c0 && !misuse {
                                return Err(ctx(&format!(
                                    "the feeder was told to pause; the reader drained the buffer to {buffered} bytes (< {MARK}) but the feeder's waker was not woken"
                                )));
                            }
                            feeder_paused = None;
                        }
                    }
                } else if let Some(k) = m_err.take() {
                    match got {
                        Poll::Ready(Some(Err(e))) if err_kind(&e) == k => {}
                        other => {
                            if !misuse {
                                return Err(ctx(&format!(
                                    "body was cut short (error kind {k}) but the reader got {}",
                                    show(&other)
                                )));
                            }
                        }
                    }
                    reader_waiting = None;
                } else if m_eof {
                    match got {
                        Poll::Ready(None) => {}
                        other => {
                            if !misuse {
                                return Err(ctx(&format!("end of body was signalled but the reader got {}", show(&other))));
                            }
                        }
                    }
                    reader_waiting = None;
                } else {
                    match got {
                        Poll::Pending => {
                            m_need_read = true;
                            reader_waiting = Some((rd_w.clone(), rd_w.0.load(Ordering::SeqCst)));
                            // an empty buffer is below the mark: a paused feeder must be woken
                            if let Some(c0) = feeder_paused {
                                if io_w.0.load(Ordering::SeqCst) == c0 && !misuse {
                                    return Err(ctx("the feeder was told to pause; the reader found the buffer empty but the feeder's waker was not woken"));
                                }
                                feeder_paused = None;
                            }
                        }
                        Poll::Ready(None) => {
                            return Err(ctx("the reader was told the body ended cleanly although no end of body was ever signalled"));
                        }
                        other => {
                            if !misuse {
                                return Err(ctx(&format!("nothing is buffered and nothing ended the body, but the reader got {}", show(&other))));
                            }
                        }
                    }
                }
                continue;
            }
            Op::Unread(n) => {
                let Some(p) = payload.as_mut() else { continue };
                let b = chunk_bytes(1000 + next_id, n as usize);
                next_id += 1;
                p.unread_data(b.clone());
                q.push_front(b);
                buffered += n as usize;
                continue;
            }
            Op::DropReader => {
                if payload.take().is_some() {
                    q.clear();
                    buffered = 0;
                    reader_waiting = None;
                }
                continue;
            }
        }
        // ---- a sender-side event happened (Feed / FeedEof / SetError / first close by drop)
        if let Some((w, c0)) = reader_waiting.take() {
            st.pending_then_event = true;
            if payload.is_some() && w.0.load(Ordering::SeqCst) == c0 {
                return Err(format!(
                    "step {step} ({op:?}) of {ops:?}: the reader's last poll returned Pending, but this event did not wake its waker"
                ));
            }
        }
    }
    // ---- drain at the end: everything still buffered comes out in order, then the truthful ending
    if let Some(p) = payload.as_mut() {
        let mut cx = Context::from_waker(&rd_waker);
        while let Some(front) = q.pop_front() {
            match Pin::new(&mut *p).poll_next(&mut cx) {
                Poll::Ready(Some(Ok(b))) if b == front => {}
                other => return Err(format!("final drain of {ops:?}: expected a {}-byte chunk, got {}", front.len(), show(&other))),
            }
        }
        let got = Pin::new(&mut *p).poll_next(&mut cx);
        if !misuse {
            match (&got, m_err, m_eof) {
                (Poll::Ready(Some(Err(e))), Some(k), _) if err_kind(e) == k => {}
                (Poll::Ready(None), None, true) => {}
                (Poll::Pending, None, false) => {}
                _ => {
                    return Err(format!(
                        "final state of {ops:?}: model error {m_err:?}, eof {m_eof}, but the reader got {}",
                        show(&got)
                    ))
                }
            }
        } else if matches!(got, Poll::Ready(None)) && !m_eof {
            return Err(format!("final state of {ops:?}: clean end without any end-of-body signal"));
        }
    }
    st.nontrivial = st.pending_then_event || st.crossed_mark || st.unclean_end;
    Ok(st)
}

fn show(p: &Poll<Option<Result<Bytes, PayloadError>>>) -> String {
    match p {
        Poll::Pending => "Pending".into(),
        Poll::Ready(None) => "end of stream (clean)".into(),
        Poll::Ready(Some(Ok(b))) => format!("a chunk of {} bytes", b.len()),
        Poll::Ready(Some(Err(e))) => format!("error {e:?}"),
    }
}

pub fn run_case(_cfg: &RunCfg, case: &Case) -> Verdict {
    match case {
        Case::Seq(ops) => match run_seq(ops) {
            Ok(st) => Verdict::ok()
                .nt(st.nontrivial)
                .class_if(st.pending_then_event, "pending-then-sender-event")
                .class_if(st.crossed_mark, "crossed-32k-mark")
                .class_if(st.unclean_end, "unclean-end"),
            Err(m) => Verdict::failed(m),
        },
        Case::Subtree { prefix, depth } => {
            let d = *depth as usize;
            let mut idx: Vec<u8> = prefix.clone();
            idx.resize(d, 0);
            let mut v = Verdict::ok();
            let mut evals = 0u64;
            let mut nt = 0u64;
            let mut ops: Vec<Op> = Vec::with_capacity(d);
            loop {
                ops.clear();
                ops.extend(idx.iter().map(|i| ALPHABET[*i as usize]));
                evals += 1;
                match run_seq(&ops) {
                    Ok(st) => {
                        if st.nontrivial {
                            nt += 1;
                        }
                    }
                    Err(m) => {
                        v.fail = Some(m);
                        v.repro = serde_json::to_value(Case::Seq(ops.clone())).ok();
                        break;
                    }
                }
                // next index with the prefix fixed
                let mut i = d;
                loop {
                    if i == prefix.len() {
                        v.sub_evals = evals;
                        v.sub_nt = nt;
                        return v;
                    }
                    i -= 1;
                    if (idx[i] as usize) + 1 < ALPHABET.len() {
                        idx[i] += 1;
                        for j in i + 1..d {
                            idx[j] = 0;
                        }
                        break;
                    }
                }
            }
            v.sub_evals = evals;
            v.sub_nt = nt;
            v
        }
    }
}

fn op_strategy() -> impl Strategy<Value = Op> {
    prop_oneof![
        6 => prop_oneof![Just(0u32), Just(1u32), Just(100u32), Just(32_767u32), Just(32_768u32), Just(40_000u32), 1u32..70_000].prop_map(Op::Feed),
        1 => Just(Op::FeedEof),
        1 => (0u8..3).prop_map(Op::SetError),
        1 => Just(Op::DropSender),
        4 => Just(Op::NeedRead),
        8 => any::<bool>().prop_map(|fresh| Op::Poll { fresh }),
        1 => prop_oneof![Just(1u32), Just(100u32), Just(40_000u32)].prop_map(Op::Unread),
        1 => Just(Op::DropReader),
    ]
}

pub fn run(cfg: &RunCfg) -> Report {
    let mut rep = Report::new("C07");
    let depth = cfg.tier.n(6, 8) as u8;
    rep.rule = format!(
        "phase exhaustive: ALL operation sequences of exactly {depth} ops (shorter histories are their prefixes: the model is checked after every step) over the alphabet {{feed 1 B, feed 32768 B, feed_eof, set_error, drop sender, need_read, reader poll with the same waker, reader poll with a fresh waker, unread 1 B, drop reader}} = 10^{depth} sequences; phase random: proptest sequences of up to 60 ops with chunk sizes 0/1/100/32767/32768/40000/random; \
         non-trivial = the sequence contains a reader poll that returned Pending followed by a sender-side event, or crosses the 32 KiB mark, or ends the body in a non-clean way; enumerated sequences are distinct by construction, random ones by hash"
    );
    rep.assumptions = vec![
        "reference model: byte queue + eof flag + pending error + need_read flag (len < 32768, recomputed on feed and on pop, set by an empty poll, untouched by unread_data)".into(),
        "spurious wake-ups are allowed; only missing ones are violations".into(),
        "sender operations after feed_eof/set_error (never done by the dispatcher) only have to be safe: no panic, no invented bytes, no clean end without feed_eof".into(),
        "dropping the reader is not 'draining': no wake-up of a paused feeder is demanded for it".into(),
    ];
    runner::replay_pinned(&mut rep, cfg, &replay);
    runner::replay_regress(&mut rep, cfg, &replay);
    // exhaustive: split by the first 3 ops into 1000 sub-trees
    let mut cases = vec![];
    for a in 0..10u8 {
        for b in 0..10u8 {
            for c in 0..10u8 {
                cases.push(Case::Subtree { prefix: vec![a, b, c], depth });
            }
        }
    }
    enumerate(&mut rep, cfg, "exhaustive", true, cases, |c| run_case(cfg, c));
    rep.exhaustive = false; // the random phase is not exhaustive; the phase entry carries the flag
    rep.extra.insert("exhaustive_depth".into(), (depth as u64).into());
    explore(
        &mut rep,
        cfg,
        "random",
        cfg.cases(300_000, 6_000_000),
        || proptest::collection::vec(op_strategy(), 0..60).prop_map(Case::Seq),
        |c| run_case(cfg, c),
    );
    if rep.samples.is_empty() {
        rep.samples.push(serde_json::json!({"phase": "exhaustive", "case": Case::Seq(vec![Op::Poll{fresh:false}, Op::Feed(32_768), Op::NeedRead, Op::Poll{fresh:false}, Op::DropSender, Op::Poll{fresh:true}])}));
    }
    let _ = util::hash_bytes;
    rep
}

pub fn replay(cfg: &RunCfg, _phase: &str, case: &serde_json::Value) -> Result<Verdict, String> {
    let c: Case = runner::from_json(case)?;
    Ok(run_case(cfg, &c))
}
