//! C11 — requests are isolated: what a handler or middleware can observe about a request depends
//! on that request and the application configuration alone, not on what the same worker served
//! before (request objects are recycled through a pool).
//!
//! One service instance (one `HttpRequestPool`, real `HttpService` + h1 dispatcher over scripted
//! connections carrying `on_connect_ext` data) serves a generated history of requests over 1-3
//! connections. Requests match different routes / scopes / parameters, populate extensions, use
//! the caches kept in extensions (cookies, connection info), clone the `HttpRequest` into a stash
//! (kept out of the pool) or release up to 200 stashed clones at once (beyond the pool capacity).
//! A dump middleware and the handler serialise everything reachable from the request; the dump of
//! request n in the history must equal the dump of the same request sent alone to a freshly built
//! service with the same connection data.

use std::cell::RefCell;

use actix_web::{
    dev::{AppConfig, Service as _},
    web, App, HttpMessage as _, HttpRequest, HttpResponse,
};
use proptest::prelude::*;
use serde::{Deserialize, Serialize};

use crate::{
    appengine::{self, ConnId, ConnScript},
    h1engine::{ConnEnd, KaCfg, SrvCfg},
    httpwire,
    runner::{self, explore, Report, RunCfg, Verdict},
    simnet::PeerOp,
    util,
};

#[derive(Debug, Clone, Copy, PartialEq, Eq)]
struct Marker(&'static str);
struct ExtA(#[allow(dead_code)] u32);
struct ExtB;

thread_local! {
    static STASH: RefCell<Vec<HttpRequest>> = const { RefCell::new(Vec::new()) };
}

const PATHS: [&str; 14] = [
    "/plain",
    "/s1/7/r/42",
    "/s1/abc/r/x%20y",
    "/s1/q/t/deep/er/tail",
    "/s1/q/t/",
    "/s2/a/1",
    "/s2/b/2/3",
    "/s1/zz/nomatch",
    "/nowhere/at/all",
    "/s2/a/a%2Fb",
    "/s3/k/inner/v",
    "/s3/k/inner/v/",
    "/",
    "/s1/7/r/43?x=1&y=2",
];

#[derive(Debug, Clone, Serialize, Deserialize, PartialEq, Eq, Hash)]
pub struct Req {
    pub conn: u8,
    pub path: u8,
    pub method_post: bool,
    pub headers: Vec<(u8, u8)>,
    /// insert ExtA / ExtB into request extensions
    pub ext_a: bool,
    pub ext_b: bool,
    pub cookies: bool,
    pub conn_info: bool,
    pub stash: bool,
    /// release this many stashed clones (0 = none)
    pub flush: u8,
}

#[derive(Debug, Clone, Serialize, Deserialize)]
pub struct Case {
    pub reqs: Vec<Req>,
    /// which request of the history is compared against a fresh service
    pub probe: u16,
    /// repeat the first part of the history to fill the pool / stash
    pub repeat: u8,
}

const HDR_NAMES: [&str; 5] = ["x-one", "cookie", "x-two", "host", "accept"];
const HDR_VALUES: [&str; 6] = ["a=1; b=2", "v", "example.org", "k=v", "*/*", "sid=9"];

fn render_req(r: &Req) -> Vec<u8> {
    let mut s = format!("{} {} HTTP/1.1\r\n", if r.method_post { "POST" } else { "GET" }, PATHS[r.path as usize % PATHS.len()]);
    for (n, v) in &r.headers {
        s.push_str(&format!("{}: {}\r\n", HDR_NAMES[*n as usize % HDR_NAMES.len()], HDR_VALUES[*v as usize % HDR_VALUES.len()]));
    }
    let mut ctl = vec![];
    if r.ext_a {
        ctl.push("ext-a");
    }
    if r.ext_b {
        ctl.push("ext-b");
    }
    if r.cookies {
        ctl.push("cookies");
    }
    if r.conn_info {
        ctl.push("conninfo");
    }
    if r.stash {
        ctl.push("stash");
    }
    if !ctl.is_empty() {
        s.push_str(&format!("x-ctl: {}\r\n", ctl.join(",")));
    }
    if r.flush > 0 {
        s.push_str(&format!("x-flush: {}\r\n", r.flush));
    }
    if r.method_post {
        s.push_str("content-length: 0\r\n");
    }
    s.push_str("\r\n");
    s.into_bytes()
}

fn dump_common(req: &HttpRequest) -> String {
    let mut hs: Vec<(String, String)> = req.headers().iter().map(|(k, v)| (k.as_str().to_string(), String::from_utf8_lossy(v.as_bytes()).into_owned())).collect();
    hs.sort();
    let mi: Vec<(String, String)> = req.match_info().iter().map(|(k, v)| (k.to_string(), v.to_string())).collect();
    format!(
        "method={} uri={} version={:?} headers={:?} match_info={:?} pattern={:?} name={:?} extA={} extB={} conn={:?} marker={:?} peer={:?} unprocessed={:?}",
        req.method(),
        req.uri(),
        req.version(),
        hs,
        mi,
        req.match_pattern(),
        req.match_name(),
        req.extensions().contains::<ExtA>(),
        req.extensions().contains::<ExtB>(),
        req.conn_data::<ConnId>().map(|c| c.0),
        req.app_data::<Marker>().map(|m| m.0),
        req.peer_addr(),
        req.match_info().unprocessed(),
    )
}

async fn handler(req: HttpRequest) -> HttpResponse {
    // what is visible at entry
    let mut dump = dump_common(&req);
    let ctl = req.headers().get("x-ctl").and_then(|v| v.to_str().ok()).unwrap_or("").to_string();
    if ctl.contains("cookies") {
        let n = req.cookies().map(|c| c.iter().map(|c| format!("{}={}", c.name(), c.value())).collect::<Vec<_>>().join(";")).unwrap_or_else(|e| format!("err {e}"));
        dump.push_str(&format!(" cookies=[{n}]"));
    }
    if ctl.contains("conninfo") {
        let ci = req.connection_info();
        dump.push_str(&format!(" conninfo=({}, {}, {:?})", ci.host(), ci.scheme(), ci.peer_addr()));
    }
    if ctl.contains("ext-a") {
        req.extensions_mut().insert(ExtA(1));
    }
    if ctl.contains("ext-b") {
        req.extensions_mut().insert(ExtB);
    }
    if ctl.contains("stash") {
        STASH.with(|s| s.borrow_mut().push(req.clone()));
    }
    if let Some(n) = req.headers().get("x-flush").and_then(|v| v.to_str().ok()).and_then(|v| v.parse::<usize>().ok()) {
        STASH.with(|s| {
            let mut s = s.borrow_mut();
            let k = s.len().saturating_sub(n);
            s.truncate(k);
        });
    }
    HttpResponse::Ok().insert_header(("content-type", "text/plain")).body(dump)
}

fn make_app() -> impl actix_service::ServiceFactory<
    actix_http::Request,
    Config = (),
    Response = actix_web::dev::ServiceResponse<impl actix_web::body::MessageBody>,
    Error = actix_web::Error,
    InitError = (),
> {
    let app = App::new()
        .app_data(Marker("app"))
        .wrap_fn(|req, srv| {
            // what middleware sees before routing
            let seen = format!(
                "mw: path={} extA={} extB={} marker={:?} conn={:?} match_info_len={}",
                req.path(),
                req.extensions().contains::<ExtA>(),
                req.extensions().contains::<ExtB>(),
                req.app_data::<Marker>().map(|m| m.0),
                req.conn_data::<ConnId>().map(|c| c.0),
                req.match_info().segment_count(),
            );
            let fut = srv.call(req);
            async move {
                let mut res = fut.await?;
                res.headers_mut().insert(
                    actix_web::http::header::HeaderName::from_static("x-mw-dump"),
                    actix_web::http::header::HeaderValue::from_str(&seen).unwrap_or(actix_web::http::header::HeaderValue::from_static("unprintable")),
                );
                Ok(res)
            }
        })
        .service(
            web::scope("/s1/{sid}")
                .app_data(Marker("s1"))
                .service(web::resource("/r/{id}").name("s1r").app_data(Marker("s1r")).to(handler))
                .service(web::resource("/t/{tail}*").to(handler)),
        )
        .service(web::scope("/s2").service(web::resource(["/a/{x}", "/b/{y}/{z}"]).name("multi").to(handler)))
        .service(web::scope("/s3/{k}").app_data(Marker("s3")).service(web::scope("/inner").app_data(Marker("s3inner")).service(web::resource("/{leaf}").to(handler))))
        .service(web::resource("/plain").to(handler))
        .default_service(web::to(handler));
    actix_service::map_config(app, |_| AppConfig::default())
}

/// Run request sequences per connection on one service; returns (body dump, middleware dump) per
/// request in history order.
fn run_history(reqs: &[Req]) -> Result<Vec<(String, String)>, String> {
    STASH.with(|s| s.borrow_mut().clear());
    // group per connection, keeping the global order by sequencing connections: connection c's
    // request k is sent only after all earlier requests of the history were answered. This is
    // arranged by virtual time: request i is sent at i ms, and handlers are immediate.
    let mut per_conn: Vec<Vec<(usize, Vec<u8>)>> = vec![vec![]; 3];
    for (i, r) in reqs.iter().enumerate() {
        per_conn[(r.conn % 3) as usize].push((i, render_req(r)));
    }
    let mut conns = vec![];
    for (c, list) in per_conn.iter().enumerate() {
        if list.is_empty() {
            continue;
        }
        let mut input = vec![];
        let mut ops = vec![];
        let mut now = 0u32;
        for (i, bytes) in list {
            let at = *i as u32 * 2 + 1;
            if at > now {
                ops.push(PeerOp::Sleep(at - now));
                now = at;
            }
            let s = input.len();
            input.extend_from_slice(bytes);
            ops.push(PeerOp::Send(s, input.len()));
        }
        ops.push(PeerOp::Sleep(reqs.len() as u32 * 2 + 10 - now));
        ops.push(PeerOp::Eof);
        conns.push(ConnScript { id: 100 + c as u32, start_ms: 0, input, peer_ops: ops, is_head: vec![false; list.len() + 2] });
    }
    let order: Vec<(usize, usize)> = {
        // (connection slot in `conns`, index within the connection) for each history position
        let mut slot_of = [usize::MAX; 3];
        let mut k = 0;
        for (c, list) in per_conn.iter().enumerate() {
            if !list.is_empty() {
                slot_of[c] = k;
                k += 1;
            }
        }
        let mut counters = [0usize; 3];
        reqs.iter()
            .map(|r| {
                let c = (r.conn % 3) as usize;
                let idx = counters[c];
                counters[c] += 1;
                (slot_of[c], idx)
            })
            .collect()
    };
    let outs = appengine::run_app(SrvCfg { ka: KaCfg::Timeout(60_000), ..Default::default() }, conns, 600_000, make_app);
    STASH.with(|s| s.borrow_mut().clear());
    let mut parsed_per_conn = vec![];
    for o in &outs {
        match &o.end {
            ConnEnd::Panicked(p) => return Err(format!("panic: {p}")),
            ConnEnd::Stalled => return Err("connection stalled".into()),
            _ => {}
        }
        let p = httpwire::parse_responses(&o.out, &vec![false; 400], o.closed);
        if let Some(e) = p.error {
            return Err(format!("wire does not parse: {e}"));
        }
        parsed_per_conn.push(p.responses);
    }
    let mut result = vec![];
    for (slot, idx) in order {
        let Some(r) = parsed_per_conn.get(slot).and_then(|v| v.get(idx)) else {
            return Err(format!("response {idx} on connection slot {slot} missing"));
        };
        if r.status != 200 || !r.complete {
            return Err(format!("response status {} complete {}", r.status, r.complete));
        }
        result.push((String::from_utf8_lossy(&r.body).into_owned(), r.header("x-mw-dump").unwrap_or("").to_string()));
    }
    Ok(result)
}

pub fn run_case(_cfg: &RunCfg, case: &Case) -> Verdict {
    // the history: the generated requests, the first `repeat` of them repeated to build up state
    let mut hist: Vec<Req> = vec![];
    for _ in 0..case.repeat.max(1) {
        hist.extend(case.reqs.iter().cloned());
    }
    if hist.is_empty() {
        return Verdict::ok();
    }
    let n = hist.len();
    let probe = util::pick_idx(case.probe, n);
    let in_history = match run_history(&hist) {
        Ok(r) => r,
        Err(e) => return Verdict::failed(format!("history of {n} requests: {e}")),
    };
    // the same request alone on a fresh service, same connection id; a lone request never
    // releases or keeps clones that matter to its own dump
    let alone = match run_history(&[hist[probe].clone()]) {
        Ok(r) => r,
        Err(e) => return Verdict::failed(format!("single request on a fresh service: {e}")),
    };
    let stashing = hist.iter().filter(|r| r.stash).count();
    let flushed: usize = hist.iter().map(|r| r.flush as usize).sum();
    let earlier_differs = hist[..probe].iter().any(|r| !r.stash && (r.path != hist[probe].path || r.ext_a || r.ext_b));
    let v = Verdict::ok()
        .nt(probe > 0 && earlier_differs)
        .class_if(stashing > 0, "clones-kept-alive")
        .class_if(flushed >= 128, "mass-release-beyond-pool-capacity")
        .class_if(hist.iter().map(|r| r.conn % 3).collect::<std::collections::BTreeSet<_>>().len() > 1, "several-connections")
        .class_if(n >= 129, "history-longer-than-pool");
    if std::env::var_os("VP_DEBUG").is_some() {
        for (i, d) in in_history.iter().enumerate() {
            eprintln!("[{i}] {} | {}", d.0, d.1);
        }
    }
    if in_history[probe] != alone[0] {
        return v.fail_with(format!(
            "request {probe} of a history of {n} ({} {}) is observed differently than when sent alone to a fresh service:\n  in history: {} | {}\n  alone:      {} | {}",
            if hist[probe].method_post { "POST" } else { "GET" },
            PATHS[hist[probe].path as usize % PATHS.len()],
            in_history[probe].0,
            in_history[probe].1,
            alone[0].0,
            alone[0].1
        ));
    }
    v
}

fn req_strategy() -> impl Strategy<Value = Req> {
    (
        0u8..3,
        0u8..14,
        proptest::bool::weighted(0.3),
        proptest::collection::vec((0u8..5, 0u8..6), 0..4),
        (proptest::bool::weighted(0.3), proptest::bool::weighted(0.2), proptest::bool::weighted(0.3), proptest::bool::weighted(0.3)),
        proptest::bool::weighted(0.3),
        prop_oneof![6 => Just(0u8), 2 => 1u8..10, 1 => Just(200u8)],
    )
        .prop_map(|(conn, path, method_post, headers, (ext_a, ext_b, cookies, conn_info), stash, flush)| Req { conn, path, method_post, headers, ext_a, ext_b, cookies, conn_info, stash, flush })
}

pub fn run(cfg: &RunCfg) -> Report {
    let mut rep = Report::new("C11");
    rep.rule = "one service instance (real HttpService + h1 dispatcher, App with nested dynamic scopes, named and multi-pattern resources, tail segments, default service, app_data markers at app/scope/resource level, on_connect_ext connection data, a wrap_fn middleware) serves a history of 1-300 requests over 1-3 connections; each request picks a path from 14 (static, dynamic, percent-encoded, tail, multi-pattern, nested-scope, unmatched, query), a method, 0-3 headers incl. Cookie/Host, and behaviours: insert ExtA/ExtB into extensions, read cookies / connection_info (cached in extensions), clone the HttpRequest into a stash, release 1-200 stashed clones; one request of the history is re-sent alone to a freshly built service with the same connection id and both dumps (handler view + middleware view) are compared; \
                non-trivial = the probed request is not the first and an earlier, not stashed request differs from it in route or populated extensions; distinct by hash of the case"
        .into();
    rep.assumptions = vec![
        "the dump covers method, URI, version, header multimap, match_info pairs, match_pattern, match_name, unprocessed path, ExtA/ExtB presence at entry, conn_data id, innermost Marker app_data, peer address, cookies and connection_info results when asked, and what a wrap_fn middleware sees before routing".into(),
        "requests are sent one after another (2 virtual ms apart) so that the history order is the service order".into(),
    ];
    runner::replay_pinned(&mut rep, cfg, &replay);
    runner::replay_regress(&mut rep, cfg, &replay);
    explore(
        &mut rep,
        cfg,
        "history",
        cfg.cases(40_000, 800_000),
        || (proptest::collection::vec(req_strategy(), 1..25), any::<u16>(), prop_oneof![4 => Just(1u8), 2 => 2u8..4, 1 => 6u8..13]).prop_map(|(reqs, probe, repeat)| Case { reqs, probe, repeat }),
        |c| run_case(cfg, c),
    );
    rep
}

pub fn replay(cfg: &RunCfg, _phase: &str, case: &serde_json::Value) -> Result<Verdict, String> {
    let c: Case = runner::from_json(case)?;
    Ok(run_case(cfg, &c))
}
