//! E3 — scripted `Stream<Item = Result<Bytes, PayloadError>>` plus a wake-driven runner.
//!
//! `ScriptedStream` yields generated chunks; before chunk i it returns `Pending` a generated number
//! of times, waking itself through the real waker (so the consumer is re-polled only because of
//! that wake). It counts how far it was pulled. `run_local` drives a consumer future on a paused
//! current-thread tokio runtime inside a `LocalSet` under a virtual deadline: a consumer that
//! returns `Pending` with nothing left to wake it misses the deadline in microseconds of wall time
//! and is reported as a hang.

use std::{
    cell::RefCell,
    future::Future,
    pin::Pin,
    rc::Rc,
    task::{Context, Poll},
    time::Duration,
};

use actix_http::error::PayloadError;
use bytes::Bytes;
use futures_core::Stream;

#[derive(Debug, Clone, Copy, PartialEq, Eq, serde::Serialize, serde::Deserialize)]
pub enum StreamEnd {
    Eof,
    /// the transport failed: `PayloadError::Incomplete`
    Error,
}

#[derive(Debug, Default)]
pub struct Pulled {
    pub chunks: usize,
    pub bytes: usize,
    pub ended: bool,
    /// lower bound of the bytes the consumer is known to have consumed (set by the consumer)
    pub consumed_lb: usize,
    /// max over time of bytes pulled - consumed_lb, sampled whenever a chunk is handed out
    pub max_ahead: usize,
    pub polls: usize,
}

pub struct ScriptedStream {
    chunks: Vec<Bytes>,
    pending_before: Vec<u8>,
    end: StreamEnd,
    next: usize,
    pending_left: u8,
    pub stats: Rc<RefCell<Pulled>>,
}

impl ScriptedStream {
    pub fn new(chunks: Vec<Bytes>, pending_before: Vec<u8>, end: StreamEnd) -> (Self, Rc<RefCell<Pulled>>) {
        let stats = Rc::new(RefCell::new(Pulled::default()));
        let pending_left = pending_before.first().copied().unwrap_or(0);
        (
            ScriptedStream { chunks, pending_before, end, next: 0, pending_left, stats: stats.clone() },
            stats,
        )
    }
}

impl Stream for ScriptedStream {
    type Item = Result<Bytes, PayloadError>;
    fn poll_next(mut self: Pin<&mut Self>, cx: &mut Context<'_>) -> Poll<Option<Self::Item>> {
        self.stats.borrow_mut().polls += 1;
        if self.pending_left > 0 {
            self.pending_left -= 1;
            cx.waker().wake_by_ref();
            return Poll::Pending;
        }
        if self.next >= self.chunks.len() {
            let mut st = self.stats.borrow_mut();
            if st.ended {
                return Poll::Ready(None);
            }
            st.ended = true;
            return match self.end {
                StreamEnd::Eof => Poll::Ready(None),
                StreamEnd::Error => Poll::Ready(Some(Err(PayloadError::Incomplete(None)))),
            };
        }
        let i = self.next;
        self.next += 1;
        self.pending_left = self.pending_before.get(self.next).copied().unwrap_or(0);
        let b = self.chunks[i].clone();
        {
            let mut st = self.stats.borrow_mut();
            st.chunks += 1;
            st.bytes += b.len();
            let ahead = st.bytes.saturating_sub(st.consumed_lb);
            if ahead > st.max_ahead {
                st.max_ahead = ahead;
            }
        }
        Poll::Ready(Some(Ok(b)))
    }
}

/// Split `data` at the given sorted cut offsets.
pub fn split_at(data: &[u8], cuts: &[usize]) -> Vec<Bytes> {
    let mut out = vec![];
    let mut prev = 0;
    let mut cs: Vec<usize> = cuts.iter().copied().filter(|c| *c > 0 && *c < data.len()).collect();
    cs.sort_unstable();
    cs.dedup();
    for c in cs {
        out.push(Bytes::copy_from_slice(&data[prev..c]));
        prev = c;
    }
    out.push(Bytes::copy_from_slice(&data[prev..]));
    out
}

pub enum RunEnd<T> {
    Done(T),
    /// virtual deadline missed
    Hang,
    Panicked(String),
}

/// Run a `!Send` future on a fresh paused current-thread runtime + LocalSet under a virtual
/// deadline.
pub fn run_local<T, F>(deadline_ms: u64, f: F) -> RunEnd<T>
where
    F: Future<Output = T> + 'static,
    T: 'static,
{
    crate::util::install_quiet_panic_hook();
    let rt = tokio::runtime::Builder::new_current_thread()
        .enable_time()
        .start_paused(true)
        .build()
        .expect("runtime");
    let local = tokio::task::LocalSet::new();
    let r = local.block_on(&rt, async move {
        let task = tokio::task::spawn_local(f);
        match tokio::time::timeout(Duration::from_millis(deadline_ms), task).await {
            Ok(Ok(v)) => RunEnd::Done(v),
            Ok(Err(e)) => {
                if e.is_panic() {
                    RunEnd::Panicked(crate::util::take_last_panic().unwrap_or_else(|| "<unknown>".into()))
                } else {
                    RunEnd::Hang
                }
            }
            Err(_) => RunEnd::Hang,
        }
    });
    drop(local);
    drop(rt);
    r
}
