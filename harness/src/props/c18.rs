//! C18 — HeaderMap is an order-preserving multimap under every operation sequence.
//!
//! Generator: operation sequences over a small menu of (mixed-case) names and values.
//! Oracle: a reference `Vec<(lower-cased name, Vec<value>)>` multimap written here; after every
//! step the full name→ordered-values association, lengths, iterators and size hints (at every
//! depth of consumption) are compared.

use std::collections::BTreeMap;

use actix_http::header::{HeaderMap, HeaderName, HeaderValue};
use proptest::prelude::*;
use serde::{Deserialize, Serialize};

use crate::runner::{self, explore, Report, RunCfg, Verdict};

const NAMES: &[&str] = &[
    "a",
    "A",
    "x-b",
    "X-B",
    "content-length",
    "Content-Length",
    "x-a-rather-long-header-name-of-40-chars-",
    "set-cookie",
    "Set-Cookie",
    "b",
    "c",
    "d",
    "x-c",
    "accept",
    "Host",
    "cache-control",
    "x-e",
    "x-f",
];
const VALUES: &[&str] = &["v1", "v2", "", "v1; long value with spaces and , commas", "3"];

#[derive(Debug, Clone, Serialize, Deserialize)]
pub enum Op {
    Insert(u8, u8),
    Append(u8, u8),
    /// remove by (name, lookup form: 0 = &str, 1 = HeaderName, 2 = &HeaderName, 3 = String)
    Remove(u8, u8, u8),
    Get(u8, u8),
    GetAll(u8, u8),
    GetMutEdit(u8, u8),
    Contains(u8, u8),
    /// retain with predicate id, parameter
    Retain(u8, u8),
    /// drain consumed to depth (255 = fully)
    Drain(u8),
    Clear,
    Iter(u8),
    Keys(u8),
    IntoIter(u8),
    RoundTripHttp,
    FromIter,
    Reserve(u8),
    CloneMap,
}

#[derive(Debug, Clone, Serialize, Deserialize)]
pub struct Case {
    pub ops: Vec<Op>,
}

fn name(i: u8) -> &'static str {
    NAMES[i as usize % NAMES.len()]
}
fn value(i: u8) -> &'static str {
    VALUES[i as usize % VALUES.len()]
}
fn hn(i: u8) -> HeaderName {
    HeaderName::from_bytes(name(i).as_bytes()).unwrap()
}
fn hv(s: &str) -> HeaderValue {
    HeaderValue::from_str(s).unwrap()
}

#[derive(Default, Clone, Debug)]
struct Model {
    entries: Vec<(String, Vec<String>)>,
}

impl Model {
    fn pos(&self, n: &str) -> Option<usize> {
        let n = n.to_ascii_lowercase();
        self.entries.iter().position(|e| e.0 == n)
    }
    fn len(&self) -> usize {
        self.entries.iter().map(|e| e.1.len()).sum()
    }
    fn insert(&mut self, n: &str, v: &str) -> Vec<String> {
        match self.pos(n) {
            Some(p) => std::mem::replace(&mut self.entries[p].1, vec![v.to_string()]),
            None => {
                self.entries
                    .push((n.to_ascii_lowercase(), vec![v.to_string()]));
                vec![]
            }
        }
    }
    fn append(&mut self, n: &str, v: &str) {
        match self.pos(n) {
            Some(p) => self.entries[p].1.push(v.to_string()),
            None => self
                .entries
                .push((n.to_ascii_lowercase(), vec![v.to_string()])),
        }
    }
    fn remove(&mut self, n: &str) -> Vec<String> {
        match self.pos(n) {
            Some(p) => self.entries.remove(p).1,
            None => vec![],
        }
    }
    fn as_map(&self) -> BTreeMap<String, Vec<String>> {
        self.entries.iter().cloned().collect()
    }
}

fn val_s(v: &HeaderValue) -> String {
    String::from_utf8_lossy(v.as_bytes()).into_owned()
}

/// retain predicates: (id, param) -> (keep?, new value)
fn retain_pred(id: u8, param: u8, n: &str, v: &str) -> (bool, Option<String>) {
    match id % 7 {
        0 => (true, None),
        1 => (false, None),
        2 => (v.starts_with("v1"), None),
        3 => (n != name(param).to_ascii_lowercase(), None),
        4 => (v != value(param), None),
        // mutate every value, keep those that did not equal VALUES[param]
        5 => (v != value(param), Some(format!("{v}x"))),
        // mutate and keep all
        _ => (true, Some(format!("m{v}"))),
    }
}

fn check_full(map: &HeaderMap, m: &Model, step: usize) -> Result<(), String> {
    let e = |s: String| Err(format!("after step {step}: {s}"));
    if map.len() != m.len() {
        return e(format!("len {} != model {}", map.len(), m.len()));
    }
    if map.len_keys() != m.entries.len() {
        return e(format!(
            "len_keys {} != model {}",
            map.len_keys(),
            m.entries.len()
        ));
    }
    if map.is_empty() != (m.len() == 0) {
        return e("is_empty mismatch".into());
    }
    // association through iter()
    let mut got: BTreeMap<String, Vec<String>> = BTreeMap::new();
    let mut it = map.iter();
    let mut remaining = m.len();
    loop {
        if it.size_hint() != (remaining, Some(remaining)) {
            return e(format!(
                "iter size_hint {:?} with {remaining} items left",
                it.size_hint()
            ));
        }
        if it.len() != remaining {
            return e(format!("iter len() {} with {remaining} left", it.len()));
        }
        match it.next() {
            Some((k, v)) => {
                if remaining == 0 {
                    return e("iter yields more than len items".into());
                }
                remaining -= 1;
                got.entry(k.as_str().to_string())
                    .or_default()
                    .push(val_s(v));
            }
            None => break,
        }
    }
    if remaining != 0 {
        return e(format!("iter ended with {remaining} items missing"));
    }
    if got != m.as_map() {
        return e(format!("contents {:?} != model {:?}", got, m.as_map()));
    }
    // keys
    let mut keys: Vec<String> = map.keys().map(|k| k.as_str().to_string()).collect();
    keys.sort();
    let mut mkeys: Vec<String> = m.entries.iter().map(|e| e.0.clone()).collect();
    mkeys.sort();
    if keys != mkeys {
        return e(format!("keys {keys:?} != model {mkeys:?}"));
    }
    if map.keys().len() != mkeys.len() {
        return e("keys().len() mismatch".into());
    }
    // per-name lookups in every case variant of the menu
    for n in NAMES {
        let exp = m.pos(n).map(|p| m.entries[p].1.clone()).unwrap_or_default();
        let all: Vec<String> = map.get_all(*n).map(val_s).collect();
        if all != exp {
            return e(format!("get_all({n}) {all:?} != {exp:?}"));
        }
        if map.get(*n).map(val_s) != exp.first().cloned() {
            return e(format!("get({n}) != first value"));
        }
        if map.contains_key(*n) != !exp.is_empty() {
            return e(format!("contains_key({n}) mismatch"));
        }
    }
    Ok(())
}

pub fn run_case(case: &Case) -> Verdict {
    let mut map = HeaderMap::new();
    let mut m = Model::default();
    let mut had_multi = false;
    let mut nt = false;
    let mut classes: Vec<&'static str> = vec![];
    macro_rules! bail {
        ($($t:tt)*) => { return Verdict::failed(format!($($t)*)).nt(nt) };
    }
    for (step, op) in case.ops.iter().enumerate() {
        if m.entries.iter().any(|e| e.1.len() >= 2) {
            had_multi = true;
        }
        match op {
            Op::Insert(n, v) => {
                let removed: Vec<String> =
                    map.insert(hn(*n), hv(value(*v))).map(|v| val_s(&v)).collect();
                let exp = m.insert(name(*n), value(*v));
                if removed != exp {
                    bail!("step {step} insert: Removed {removed:?} != model {exp:?}");
                }
            }
            Op::Append(n, v) => {
                map.append(hn(*n), hv(value(*v)));
                m.append(name(*n), value(*v));
            }
            Op::Remove(n, form, depth) => {
                let mut r = match form % 4 {
                    0 => map.remove(name(*n)),
                    1 => map.remove(hn(*n)),
                    2 => map.remove(&hn(*n)),
                    _ => map.remove(&name(*n).to_string()),
                };
                let exp = m.remove(name(*n));
                if had_multi {
                    nt = true;
                }
                if r.is_empty() != exp.is_empty() {
                    bail!("step {step} remove: Removed::is_empty mismatch");
                }
                if r.len() != exp.len() || r.size_hint() != (exp.len(), Some(exp.len())) {
                    bail!(
                        "step {step} remove: Removed len {} / size_hint {:?} != {}",
                        r.len(),
                        r.size_hint(),
                        exp.len()
                    );
                }
                // consume to a depth, checking size hints
                let mut got = vec![];
                let d = *depth as usize;
                for i in 0..exp.len().min(d) {
                    match r.next() {
                        Some(v) => got.push(val_s(&v)),
                        None => bail!("step {step} remove: Removed ended early at {i}"),
                    }
                    let left = exp.len() - i - 1;
                    if r.size_hint() != (left, Some(left)) {
                        bail!("step {step} remove: size_hint after {i} = {:?}", r.size_hint());
                    }
                }
                if got[..] != exp[..got.len()] {
                    bail!("step {step} remove: values {got:?} != model {exp:?}");
                }
                if d >= exp.len() && r.next().is_some() {
                    bail!("step {step} remove: Removed yields extra value");
                }
            }
            Op::Get(n, form) => {
                let got = match form % 3 {
                    0 => map.get(name(*n)).map(val_s),
                    1 => map.get(hn(*n)).map(val_s),
                    _ => map.get(&hn(*n)).map(val_s),
                };
                let exp = m.pos(name(*n)).and_then(|p| m.entries[p].1.first().cloned());
                if got != exp {
                    bail!("step {step} get({}) {got:?} != {exp:?}", name(*n));
                }
            }
            Op::GetAll(n, _) => {
                let it = map.get_all(name(*n));
                let exp = m.pos(name(*n)).map(|p| m.entries[p].1.clone()).unwrap_or_default();
                if it.len() != exp.len() {
                    bail!("step {step} get_all len");
                }
                let got: Vec<String> = it.map(val_s).collect();
                if got != exp {
                    bail!("step {step} get_all({}) {got:?} != {exp:?}", name(*n));
                }
            }
            Op::GetMutEdit(n, v) => {
                let exp = m.pos(name(*n));
                match (map.get_mut(name(*n)), exp) {
                    (Some(slot), Some(p)) => {
                        *slot = hv(value(*v));
                        m.entries[p].1[0] = value(*v).to_string();
                    }
                    (None, None) => {}
                    (a, b) => bail!(
                        "step {step} get_mut presence {} vs model {}",
                        a.is_some(),
                        b.is_some()
                    ),
                }
            }
            Op::Contains(n, form) => {
                let got = match form % 2 {
                    0 => map.contains_key(name(*n)),
                    _ => map.contains_key(hn(*n)),
                };
                if got != m.pos(name(*n)).is_some() {
                    bail!("step {step} contains_key({})", name(*n));
                }
            }
            Op::Retain(id, param) => {
                if had_multi {
                    nt = true;
                }
                let mut visited: BTreeMap<String, Vec<String>> = BTreeMap::new();
                map.retain(|k, v| {
                    let vs = val_s(v);
                    visited.entry(k.as_str().to_string()).or_default().push(vs.clone());
                    let (keep, newv) = retain_pred(*id, *param, k.as_str(), &vs);
                    if let Some(nv) = newv {
                        *v = hv(&nv);
                    }
                    keep
                });
                if visited != m.as_map() {
                    bail!("step {step} retain visited {visited:?} != model contents {:?}", m.as_map());
                }
                let mut new_entries = vec![];
                for (k, vals) in m.entries.drain(..) {
                    let mut kept = vec![];
                    for v in vals {
                        let (keep, newv) = retain_pred(*id, *param, &k, &v);
                        if keep {
                            kept.push(newv.unwrap_or(v));
                        }
                    }
                    if !kept.is_empty() {
                        new_entries.push((k, kept));
                    }
                }
                m.entries = new_entries;
            }
            Op::Drain(depth) => {
                if had_multi {
                    nt = true;
                }
                let total = m.len();
                let exp = m.as_map();
                let mut got: BTreeMap<String, Vec<String>> = BTreeMap::new();
                {
                    let mut d = map.drain();
                    let mut cur: Option<String> = None;
                    let take = (*depth as usize).min(total + 1);
                    let full = *depth == 255 || take > total;
                    let mut n_taken = 0;
                    loop {
                        let left = total - n_taken;
                        if d.size_hint() != (left, Some(left)) || d.len() != left {
                            bail!("step {step} drain: size_hint {:?} with {left} left", d.size_hint());
                        }
                        if !full && n_taken >= take {
                            break;
                        }
                        match d.next() {
                            Some((k, v)) => {
                                n_taken += 1;
                                if let Some(k) = k {
                                    cur = Some(k.as_str().to_string());
                                }
                                let Some(c) = cur.clone() else {
                                    bail!("step {step} drain: first item without a name");
                                };
                                got.entry(c).or_default().push(val_s(&v));
                            }
                            None => {
                                if left != 0 {
                                    bail!("step {step} drain: ended with {left} left");
                                }
                                break;
                            }
                        }
                    }
                    if full && got != exp {
                        bail!("step {step} drain: yielded {got:?} != model {exp:?}");
                    }
                    // every yielded (name, values) must be a prefix of the model's values for that name
                    for (k, vs) in &got {
                        let Some(ev) = exp.get(k) else {
                            bail!("step {step} drain: yielded unknown name {k}");
                        };
                        if vs.len() > ev.len() || vs[..] != ev[..vs.len()] {
                            bail!("step {step} drain: values for {k} {vs:?} not a prefix of {ev:?}");
                        }
                    }
                }
                m.entries.clear();
            }
            Op::Clear => {
                map.clear();
                m.entries.clear();
            }
            Op::Iter(depth) => {
                let total = m.len();
                let mut it = map.iter();
                for i in 0..total.min(*depth as usize) {
                    if it.next().is_none() {
                        bail!("step {step} iter ended early at {i}");
                    }
                    let left = total - i - 1;
                    if it.size_hint() != (left, Some(left)) {
                        bail!("step {step} iter size_hint {:?} after {}", it.size_hint(), i + 1);
                    }
                }
            }
            Op::Keys(depth) => {
                let total = m.entries.len();
                let mut it = map.keys();
                for i in 0..total.min(*depth as usize) {
                    if it.next().is_none() {
                        bail!("step {step} keys ended early");
                    }
                    let left = total - i - 1;
                    if it.size_hint() != (left, Some(left)) {
                        bail!("step {step} keys size_hint {:?}", it.size_hint());
                    }
                }
            }
            Op::IntoIter(depth) => {
                let total = m.len();
                let exp = m.as_map();
                let mut it = map.clone().into_iter();
                let mut got: BTreeMap<String, Vec<String>> = BTreeMap::new();
                let full = *depth as usize >= total;
                let mut i = 0;
                loop {
                    let left = total - i;
                    if it.size_hint() != (left, Some(left)) || it.len() != left {
                        bail!("step {step} into_iter size_hint {:?} with {left} left", it.size_hint());
                    }
                    if i >= *depth as usize && !full {
                        break;
                    }
                    match it.next() {
                        Some((k, v)) => {
                            i += 1;
                            got.entry(k.as_str().to_string()).or_default().push(val_s(&v));
                        }
                        None => break,
                    }
                }
                if full && got != exp {
                    bail!("step {step} into_iter {got:?} != {exp:?}");
                }
            }
            Op::RoundTripHttp => {
                let h: http::HeaderMap = http::HeaderMap::from(&map);
                // compare http map contents with model
                let mut got: BTreeMap<String, Vec<String>> = BTreeMap::new();
                for (k, v) in h.iter() {
                    got.entry(k.as_str().to_string()).or_default().push(val_s(v));
                }
                if got != m.as_map() {
                    bail!("step {step} to http::HeaderMap {got:?} != {:?}", m.as_map());
                }
                if h.len() != m.len() {
                    bail!("step {step} http len");
                }
                let owned: http::HeaderMap = map.clone().into();
                if owned != h {
                    bail!("step {step} From<HeaderMap> and From<&HeaderMap> differ");
                }
                map = HeaderMap::from(h);
            }
            Op::FromIter => {
                let pairs: Vec<(HeaderName, HeaderValue)> = map.clone().into_iter().collect();
                if pairs.len() != m.len() {
                    bail!("step {step} into_iter count {} != {}", pairs.len(), m.len());
                }
                map = pairs.into_iter().collect();
            }
            Op::Reserve(n) => {
                map.reserve(*n as usize);
                if map.capacity() < map.len_keys() {
                    bail!("step {step} capacity < len_keys");
                }
            }
            Op::CloneMap => {
                map = map.clone();
            }
        }
        if let Err(e) = check_full(&map, &m, step) {
            return Verdict::failed(e).nt(nt);
        }
    }
    if case.ops.len() > 40 {
        classes.push("long");
    }
    if had_multi {
        classes.push("multi-valued");
    }
    let mut v = Verdict::ok().nt(nt);
    v.classes = classes;
    v
}

fn op_strategy() -> impl Strategy<Value = Op> {
    let n = 0u8..NAMES.len() as u8;
    let v = 0u8..VALUES.len() as u8;
    prop_oneof![
        6 => (n.clone(), v.clone()).prop_map(|(a, b)| Op::Insert(a, b)),
        10 => (n.clone(), v.clone()).prop_map(|(a, b)| Op::Append(a, b)),
        5 => (n.clone(), 0u8..4, 0u8..6).prop_map(|(a, b, c)| Op::Remove(a, b, c)),
        2 => (n.clone(), 0u8..3).prop_map(|(a, b)| Op::Get(a, b)),
        2 => (n.clone(), 0u8..2).prop_map(|(a, b)| Op::GetAll(a, b)),
        2 => (n.clone(), v.clone()).prop_map(|(a, b)| Op::GetMutEdit(a, b)),
        1 => (n.clone(), 0u8..2).prop_map(|(a, b)| Op::Contains(a, b)),
        4 => (0u8..7, 0u8..10).prop_map(|(a, b)| Op::Retain(a, b)),
        2 => prop_oneof![Just(255u8), 0u8..8].prop_map(Op::Drain),
        1 => Just(Op::Clear),
        2 => (0u8..10).prop_map(Op::Iter),
        1 => (0u8..6).prop_map(Op::Keys),
        2 => (0u8..10).prop_map(Op::IntoIter),
        2 => Just(Op::RoundTripHttp),
        1 => Just(Op::FromIter),
        1 => (0u8..40).prop_map(Op::Reserve),
        1 => Just(Op::CloneMap),
    ]
}

pub fn run(cfg: &RunCfg) -> Report {
    let mut rep = Report::new("C18");
    rep.rule = "cases = operation sequences (insert/append/remove/get*/retain/drain/clear/iterators/http round-trip) over 10 mixed-case names and 5 values; \
                non-trivial = some name held >=2 values and a remove/retain/drain happened afterwards; distinct by hash of the op sequence"
        .into();
    rep.assumptions = vec![
        "inter-name iteration order is unspecified and not compared; per-name value order is".into(),
        "reference multimap is a Vec<(lower-cased name, Vec<value>)> written in the harness".into(),
    ];
    runner::replay_pinned(&mut rep, cfg, &replay);
    runner::replay_regress(&mut rep, cfg, &replay);
    explore(
        &mut rep,
        cfg,
        "short",
        cfg.cases(1_000_000, 10_000_000),
        || proptest::collection::vec(op_strategy(), 0..14).prop_map(|ops| Case { ops }),
        run_case,
    );
    explore(
        &mut rep,
        cfg,
        "long",
        cfg.cases(50_000, 500_000),
        || proptest::collection::vec(op_strategy(), 20..300).prop_map(|ops| Case { ops }),
        run_case,
    );
    rep
}

pub fn replay(_cfg: &RunCfg, _phase: &str, case: &serde_json::Value) -> Result<Verdict, String> {
    let c: Case = runner::from_json(case)?;
    // The map's inter-name iteration order is randomised per map instance (ahash). The oracle
    // does not depend on it, but whether an order-dependent defect shows in one run does: a
    // replay runs the case on 32 fresh maps and fails if any of them fails.
    let mut v = run_case(&c);
    for _ in 0..31 {
        if v.is_fail() {
            break;
        }
        v = run_case(&c);
    }
    Ok(v)
}
