use crate::PropEntry;

pub mod c18;

pub fn registry() -> Vec<PropEntry> {
    vec![
        PropEntry { id: "C18", run: c18::run, replay: c18::replay },
    ]
}
