#!/bin/bash
# Run /repo's pinned test suite the way the baseline does (nextest, offline); print a summary.
#   tools/repo_tests.sh [extra nextest args, e.g. -p actix-http]
cd /repo || exit 2
export CARGO_NET_OFFLINE=true
LOG=/tmp/repo_tests.$$.log
cargo nextest run --workspace --no-fail-fast --tool-config-file pb:/w/lib/nextest.toml --profile pb --test-threads 8 --offline "$@" >"$LOG" 2>&1
rc=$?
grep -E "^\s*(FAIL|SIGABRT|TIMEOUT|LEAK)|Summary|tests run" "$LOG" | sort | uniq | tail -40
echo "exit=$rc log=$LOG"
exit $rc
