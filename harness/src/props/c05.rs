//! C05 — HTTP/1 per-connection memory is bounded by configuration, not by the peer.
//!
//! Streams built to grow (huge / endless heads, multi-megabyte bodies against consumers that never
//! or slowly read, thousands of pipelined requests behind a slow handler, large streaming
//! responses against a socket that accepts nothing or very little) are delivered by a peer with
//! unlimited send rate. Deciding oracle = black-box byte accounting at the two observation
//! points (scripted socket, recording handlers): bytes taken from the socket minus bytes handed
//! to the application, body bytes pulled from response bodies minus bytes the socket accepted,
//! complete requests inside the taken prefix minus dispatched requests. Bounds are derived from
//! the code's constants (see DESIGN.md §5 C05) and stated per configuration value. The counting
//! allocator's per-case high-water mark is recorded as a second signal with a coarse bound.

use proptest::prelude::*;
use serde::{Deserialize, Serialize};

use crate::{
    h1engine::{self, BodyKind, BodyProg, ChunkProg, ConnEnd, HandlerProg, KaCfg, ReadProg, RespProg, Scenario, SrvCfg},
    httpwire::{self, ChunkSpec, ConnOpt, Framing, ReqSpec},
    runner::{self, explore, Report, RunCfg, Verdict},
    simnet::{PeerOp, WSched},
};

const READ_BUF_MAX: usize = 131_072; // h1::decoder::MAX_BUFFER_SIZE
/// the read buffer stops being refilled once it holds MAX_BUFFER_SIZE bytes, but a single read may
/// fill its whole capacity, which `BytesMut` doubles up to 2 x MAX_BUFFER_SIZE
const READ_BUF_CAP: usize = 262_144;
const READ_RESERVE: usize = 8_192; // HW_BUFFER_SIZE
const PAYLOAD_MARK: usize = 32_768; // h1::payload::MAX_BUFFER_SIZE
/// unparsed input (one read buffer at full capacity) + one full read buffer decoded into the
/// payload channel / request queue in a single pass + the channel's own mark + head-room
const INFLIGHT_BOUND: i64 = (READ_BUF_CAP + READ_BUF_CAP + PAYLOAD_MARK + 65_536) as i64; // 622 592
const MAX_PIPELINED: i64 = 16;

#[derive(Debug, Clone, Serialize, Deserialize)]
pub enum Case {
    /// request head that grows: `n_headers` headers with values of `value_len` bytes; optionally
    /// never terminated; delivered in segments of `seg` bytes (0 = whole)
    Head { n_headers: u32, value_len: u32, name_len: u8, terminated: bool, seg: u32, bare_line: bool },
    /// one request with a body of `len` bytes against a slow / absent consumer
    Body {
        len: u32,
        chunked: bool,
        chunk: u32,
        consumer: Consumer,
        hold_ms: u16,
        seg: u32,
        /// > 0: the upload is pipelined behind a `GET /slow` whose handler takes this many ms, so
        /// it sits in the dispatcher's queue (no consumer yet) while its body keeps arriving
        #[serde(default)]
        behind_ms: u16,
    },
    /// `n` pipelined minimal requests; the first handler sleeps `first_delay_ms`; the socket accepts
    /// nothing for `block_ms`
    Pipeline { n: u32, pad: u8, first_delay_ms: u16, per_delay_ms: u8, block_ms: u16, seg: u32 },
    /// streaming response of `chunks` x `chunk_len` bytes against a slow socket
    Response { chunks: u32, chunk_len: u32, kind: u8, write_buf: u32, w: WSched, pend: u8 },
}

#[derive(Debug, Clone, Serialize, Deserialize, PartialEq, Eq)]
pub enum Consumer {
    /// holds the payload without polling it, then responds
    Never,
    /// reads everything, sleeping `pace` ms after each chunk
    Slow(u8),
    /// reads up to n bytes then stops
    UpTo(u32),
    /// reads everything as fast as possible
    All,
    /// drops the payload at once, responds after the hold time
    Drop,
}

fn seg_len() -> impl Strategy<Value = u32> {
    prop_oneof![3 => Just(0u32), 1 => Just(1u32 << 16), 2 => 1000u32..70_000, 1 => 100_000u32..400_000]
}

fn case_strategy(kind: u8) -> BoxedStrategy<Case> {
    match kind {
        0 => (
            prop_oneof![
                // one huge header / many small / medium mix; sized around the 128 KiB limit
                3 => (Just(1u32), prop_oneof![1u32..1000, 100_000u32..140_000, 140_000u32..600_000]),
                3 => (prop_oneof![10u32..95, 95u32..110, 110u32..20_000], 0u32..64),
                2 => (10u32..90, 1000u32..8000),
            ],
            1u8..30,
            proptest::bool::weighted(0.6),
            seg_len(),
            proptest::bool::weighted(0.1),
        )
            .prop_map(|((n_headers, value_len), name_len, terminated, seg, bare_line)| Case::Head {
                n_headers,
                value_len,
                name_len,
                terminated,
                seg,
                bare_line,
            })
            .boxed(),
        1 => (
            prop_oneof![1 => 200_000u32..1_000_000, 1 => 1_000_000u32..6_300_000, 3 => 6_300_000u32..12_000_000],
            any::<bool>(),
            prop_oneof![Just(1u32), 1u32..100, 1000u32..70_000, 70_000u32..1_000_000],
            prop_oneof![
                3 => Just(Consumer::Never),
                3 => (1u8..4).prop_map(Consumer::Slow),
                2 => (0u32..200_000).prop_map(Consumer::UpTo),
                1 => Just(Consumer::All),
                1 => Just(Consumer::Drop),
            ],
            prop_oneof![Just(0u16), 1u16..50, 50u16..2000],
            seg_len(),
            prop_oneof![3 => Just(0u16), 1 => 1u16..50, 2 => 50u16..3000],
        )
            .prop_map(|(len, chunked, chunk, consumer, hold_ms, seg, behind_ms)| Case::Body {
                len,
                chunked,
                chunk,
                consumer,
                hold_ms,
                seg,
                behind_ms,
            })
            .boxed(),
        2 => (
            prop_oneof![1 => 20u32..2000, 1 => 2000u32..20_000, 2 => 20_000u32..60_000],
            0u8..40,
            prop_oneof![Just(0u16), 1u16..100, 100u16..3000],
            prop_oneof![4 => Just(0u8), 1 => 1u8..3],
            prop_oneof![Just(0u16), 1u16..50, 50u16..3000],
            seg_len(),
        )
            .prop_map(|(n, pad, first_delay_ms, per_delay_ms, block_ms, seg)| Case::Pipeline {
                n,
                pad,
                first_delay_ms,
                per_delay_ms,
                block_ms,
                seg,
            })
            .boxed(),
        _ => (
            prop_oneof![1u32..20, 20u32..400, 400u32..3000],
            prop_oneof![Just(1u32), 1u32..100, 100u32..5000, 5000u32..66_000],
            0u8..3,
            prop_oneof![Just(1u32), Just(64u32), Just(4096u32), Just(32_768u32), Just(1u32 << 20), 2u32..100_000],
            (
                prop_oneof![Just(0u32), Just(1u32), Just(100u32)],
                proptest::collection::vec(
                    (prop_oneof![Just(0u16), 1u16..5], prop_oneof![Just(1u32), 2u32..300, 300u32..20_000]),
                    1..4,
                ),
                100u32..3000,
            )
                .prop_map(|(init_credit, drip, budget)| WSched {
                    init_credit,
                    drip,
                    max_write: vec![],
                    flush: vec![],
                    budget,
                }),
            0u8..3,
        )
            .prop_map(|(chunks, chunk_len, kind, write_buf, w, pend)| Case::Response {
                chunks: chunks.min((6_000_000 / chunk_len.max(1)).max(1)),
                chunk_len,
                kind,
                write_buf,
                w,
                pend,
            })
            .boxed(),
    }
}

fn deliver(len: usize, seg: u32) -> Vec<PeerOp> {
    let mut ops = vec![];
    if seg == 0 || seg as usize >= len {
        ops.push(PeerOp::Send(0, len));
    } else {
        let mut a = 0;
        while a < len {
            let b = (a + seg as usize).min(len);
            ops.push(PeerOp::Send(a, b));
            ops.push(PeerOp::Yield);
            a = b;
        }
    }
    ops
}

fn simple_resp() -> RespProg {
    RespProg::ok_bytes(2, 1)
}

/// peak of (complete requests inside the taken prefix) - (requests dispatched), over time
fn max_queued(out: &h1engine::Outcome, ends: &[usize]) -> i64 {
    let mut best = 0i64;
    let mut di = 0usize;
    let mut ei = 0usize;
    for (t, taken) in &out.taken_log {
        while ei < ends.len() && ends[ei] <= *taken {
            ei += 1;
        }
        // dispatches that happened strictly before this read
        while di < out.reqs.len() && out.reqs[di].t_dispatch < *t {
            di += 1;
        }
        // requests dispatched at the same instant may precede or follow the read; count them as
        // dispatched only when they were logged before (conservative: gives the dispatcher credit)
        let mut d_same = di;
        while d_same < out.reqs.len() && out.reqs[d_same].t_dispatch <= *t {
            d_same += 1;
        }
        let q = ei as i64 - d_same as i64;
        if q > best {
            best = q;
        }
    }
    best
}

pub fn run_case(_cfg: &RunCfg, case: &Case) -> Verdict {
    match case {
        Case::Head { n_headers, value_len, name_len, terminated, seg, bare_line } => {
            let mut input: Vec<u8> = b"GET /head HTTP/1.1\r\n".to_vec();
            if *bare_line {
                // no header structure at all: an endless first header line
                input.extend_from_slice(b"X-Endless: ");
                input.extend(std::iter::repeat_n(b'a', (*n_headers as usize) * (*value_len as usize + 8)));
            } else {
                for i in 0..*n_headers {
                    let name = format!("x-{}{}", "h".repeat(*name_len as usize), i);
                    input.extend_from_slice(name.as_bytes());
                    input.extend_from_slice(b": ");
                    input.extend(std::iter::repeat_n(b'v', *value_len as usize));
                    input.extend_from_slice(b"\r\n");
                }
            }
            let fits_headers = *n_headers <= 96 && !*bare_line;
            if *terminated && !*bare_line {
                input.extend_from_slice(b"\r\n");
            }
            let head_len = input.len();
            // a follow-up request shows whether the connection went on
            input.extend_from_slice(b"GET /after HTTP/1.1\r\n\r\n");
            let total = input.len();
            let mut ops = deliver(total, *seg);
            ops.push(PeerOp::WaitClose(8000));
            ops.push(PeerOp::Eof);
            let mut sc = Scenario::new(SrvCfg::default(), vec![HandlerProg::simple(); 2], input, ops);
            sc.keep_taken_log = true;
            sc.capture_bodies = false;
            sc.head_lens = vec![head_len, 23];
            let out = h1engine::run(sc);
            let mut v = Verdict::ok()
                .nt(head_len > READ_BUF_MAX || !*terminated)
                .class_if(head_len > READ_BUF_MAX + READ_RESERVE, "head-over-limit")
                .class_if(head_len <= READ_BUF_MAX, "head-fits")
                .class_if(!*terminated, "head-never-terminated")
                .class_if(*n_headers > 96, "too-many-headers");
            if let ConnEnd::Panicked(p) = &out.end {
                return v.fail_with(format!("panic: {p}"));
            }
            if matches!(out.end, ConnEnd::Stalled) {
                return v.fail_with("connection never completed");
            }
            let parsed = httpwire::parse_responses(&out.out, &[false, false, false], out.closed());
            let first = parsed.responses.first().map(|r| r.status);
            let complete_head = *terminated && !*bare_line;
            let after_dispatched = out.reqs.iter().any(|r| r.target == "/after");
            // whatever happens, unparsed input is bounded by the read buffer's capacity
            let limit = READ_BUF_CAP + READ_RESERVE;
            if out.taken > limit && (head_len > limit || !complete_head) {
                return v.fail_with(format!(
                    "server took {} bytes of a request head that cannot complete within the read buffer (head {head_len} bytes, terminated={complete_head}; buffer capacity {READ_BUF_CAP}): unparsed input is not bounded",
                    out.taken
                ));
            }
            if complete_head && head_len <= READ_BUF_MAX && fits_headers {
                // fits whatever the read sizes: served, and the connection goes on
                if first != Some(200) || !after_dispatched {
                    return v.fail_with(format!(
                        "a {head_len}-byte head with {n_headers} headers fits the limits but was answered {first:?} (follow-up dispatched: {after_dispatched})"
                    ));
                }
                return v;
            }
            if (complete_head && head_len > limit) || (!complete_head && total > limit) {
                // cannot fit: refused with 431 (a head with more than 96 header lines may be
                // refused as 400 first), nothing after it is served
                match first {
                    Some(431) => {}
                    Some(400) if *n_headers > 96 => v = v.class("400-too-many-headers"),
                    other => {
                        return v.fail_with(format!(
                            "oversized head ({head_len} bytes, {n_headers} headers, terminated={complete_head}) was answered {other:?}, expected 431"
                        ))
                    }
                }
                if after_dispatched {
                    return v.fail_with("the request after an oversized head was dispatched");
                }
                return v;
            }
            // in between (acceptance depends on read sizes), too many header lines, or a short
            // unterminated head: served or refused with a 4xx, never anything else
            match first {
                Some(200) | Some(400) | Some(431) | None => v.class("lenient-size-class"),
                other => v.fail_with(format!("head of {head_len} bytes answered {other:?}")),
            }
        }
        Case::Body { len, chunked, chunk, consumer, hold_ms, seg, behind_ms } => {
            let framing = if *chunked {
                let c = (*chunk).max(1);
                // bound the number of chunk headers (a 1-byte chunk stream is mostly framing)
                let c = c.max(*len / 200_000 + 1);
                let mut chunks = vec![];
                let mut left = *len;
                while left > 0 {
                    let l = left.min(c);
                    chunks.push(ChunkSpec { len: l, ext: None, upper: false, zeros: 0, lws: 0 });
                    left -= l;
                }
                Framing::Chunked { chunks, last_ext: None, te_case: 0 }
            } else {
                Framing::Length { len: *len, zeros: 0, ows: 1 }
            };
            let req = ReqSpec {
                method: "POST".into(),
                target: "/upload".into(),
                version: 1,
                headers: vec![],
                conn: ConnOpt::None,
                expect: false,
                framing,
                body_seed: 1,
                body_style: 3,
                name_case: 0,
            };
            let behind = *behind_ms > 0;
            let rendered = if behind { httpwire::render_pipeline(&[ReqSpec::get("/slow"), req]) } else { httpwire::render_pipeline(&[req]) };
            let total = rendered.bytes.len();
            let up = rendered.reqs.len() - 1;
            let head_len = rendered.reqs[up].head_end - rendered.reqs[up].start;
            let first_len = if behind { rendered.reqs[0].end - rendered.reqs[0].start } else { 0 };
            let (read, pace, pre) = match consumer {
                Consumer::Never => (ReadProg::Hold, 0u16, *hold_ms),
                Consumer::Slow(p) => (ReadProg::All, *p as u16, 0),
                Consumer::UpTo(n) => (ReadProg::UpTo(*n), 0, *hold_ms),
                Consumer::All => (ReadProg::All, 0, 0),
                Consumer::Drop => (ReadProg::DropNow, 0, *hold_ms),
            };
            let prog = HandlerProg {
                pre_yields: 0,
                pre_delay_ms: pre,
                read,
                read_pace_ms: pace,
                post_delay_ms: if matches!(consumer, Consumer::UpTo(_)) { *hold_ms } else { 0 },
                fail: false,
                resp: simple_resp(),
            };
            let mut ops = deliver(total, *seg);
            ops.push(PeerOp::WaitClose(1_800_000));
            ops.push(PeerOp::Eof);
            let progs = if behind {
                let mut slow = HandlerProg::simple();
                slow.pre_delay_ms = *behind_ms;
                slow.resp = simple_resp();
                vec![slow, prog]
            } else {
                vec![prog]
            };
            let mut sc = Scenario::new(SrvCfg::default(), progs, rendered.bytes, ops);
            sc.capture_bodies = false;
            sc.head_lens = if behind { vec![first_len, head_len] } else { vec![head_len] };
            sc.body_scale = ((total - head_len - first_len) as u64, (*len).max(1) as u64);
            let out = h1engine::run(sc);
            let slow = !matches!(consumer, Consumer::All);
            let v = Verdict::ok()
                .nt(*len as i64 >= 10 * INFLIGHT_BOUND && slow)
                .class_if(*chunked, "chunked")
                .class_if(!*chunked, "content-length")
                .class_if(matches!(consumer, Consumer::Never), "consumer-never-reads")
                .class_if(matches!(consumer, Consumer::Slow(_)), "consumer-slow")
                .class_if(matches!(consumer, Consumer::UpTo(_)), "consumer-stops")
                .class_if(matches!(consumer, Consumer::Drop), "consumer-drops")
                .class_if(behind, "upload-queued-behind-slow-request");
            if let ConnEnd::Panicked(p) = &out.end {
                return v.fail_with(format!("panic: {p}"));
            }
            if matches!(out.end, ConnEnd::Stalled) {
                return v.fail_with("connection never completed");
            }
            // while the payload object is alive back-pressure must hold; once the handler has
            // returned (payload dropped) the rest is discarded or the connection closes, and a
            // payload dropped at once is discarded from the start: discarded bytes are not held
            let inflight = match consumer {
                Consumer::All | Consumer::Slow(_) => Some(out.max_inflight),
                // (marks are running maxima taken when a handler returns: index `up` is the upload's)
                Consumer::Never | Consumer::UpTo(_) => out.inflight_marks.get(up).copied(),
                // while the upload waits in the queue it has no consumer and back-pressure holds
                Consumer::Drop if behind => out.inflight_marks.first().copied(),
                Consumer::Drop => None,
            };
            if let Some(m) = inflight {
                if m > INFLIGHT_BOUND {
                    return v.fail_with(format!(
                        "bytes taken from the socket ran {m} ahead of what the application consumed (bound {INFLIGHT_BOUND}; body {len} bytes, consumer {consumer:?}): read-ahead is not limited by back-pressure"
                    ));
                }
            }
            if matches!(consumer, Consumer::All | Consumer::Slow(_)) {
                let got = out.reqs.get(up).map(|r| r.body_len).unwrap_or(0);
                if got != *len as usize {
                    return v.fail_with(format!("handler read {got} of {len} body bytes"));
                }
            }
            // coarse second signal: tiny chunks cost one queue slot each (bounded by the 32 KiB
            // mark), so the mark is generous
            if out.alloc_peak > 3 * INFLIGHT_BOUND as isize + (8 << 20) {
                return v.fail_with(format!("allocation high-water mark {} bytes for one connection", out.alloc_peak));
            }
            v
        }
        Case::Pipeline { n, pad, first_delay_ms, per_delay_ms, block_ms, seg } => {
            let one = format!("GET /p{} HTTP/1.1\r\n\r\n", "x".repeat(*pad as usize));
            let req_len = one.len();
            let mut input = Vec::with_capacity(req_len * *n as usize);
            for _ in 0..*n {
                input.extend_from_slice(one.as_bytes());
            }
            let total = input.len();
            let ends: Vec<usize> = (1..=*n as usize).map(|i| i * req_len).collect();
            let mut progs = Vec::with_capacity(*n as usize);
            for i in 0..*n {
                // Once more than a read buffer of input is pending while the queue is full the
                // dispatcher re-wakes itself on every poll ("force wake up dispatcher just in
                // case"); under a paused clock that spin never lets virtual time advance, so slow
                // handlers of large pipelines make progress by scheduler turns instead of by time.
                let by_turns = total >= 120_000;
                let d = if i == 0 { *first_delay_ms } else { *per_delay_ms as u16 };
                progs.push(HandlerProg {
                    pre_yields: if by_turns { d as u32 } else { 0 },
                    pre_delay_ms: if by_turns { 0 } else { d },
                    read: ReadProg::All,
                    read_pace_ms: 0,
                    post_delay_ms: 0,
                    fail: false,
                    resp: RespProg {
                        body: BodyProg { kind: BodyKind::Unit, chunks: vec![], fail_at_end: false, seed: 0, style: 1 },
                        ..simple_resp()
                    },
                });
            }
            let mut ops = deliver(total, *seg);
            ops.push(PeerOp::WaitClose(600_000));
            ops.push(PeerOp::Eof);
            let mut sc = Scenario::new(
                SrvCfg { ka: KaCfg::Timeout(2000), ..Default::default() },
                progs,
                input,
                ops,
            );
            sc.keep_taken_log = true;
            sc.capture_bodies = false;
            sc.head_lens = vec![req_len; *n as usize];
            if *block_ms > 0 {
                sc.w_ops = vec![
                    crate::simnet::WOp::Credit(0),
                    crate::simnet::WOp::Sleep(*block_ms as u32),
                    crate::simnet::WOp::Unlimited,
                ];
            }
            let out = h1engine::run(sc);
            let v = Verdict::ok()
                .nt(total as i64 >= 2 * INFLIGHT_BOUND && (*first_delay_ms > 0 || *per_delay_ms > 0 || *block_ms > 0))
                .class_if(*first_delay_ms > 0, "first-handler-slow")
                .class_if(*per_delay_ms > 0, "every-handler-slow")
                .class_if(*block_ms > 0, "socket-blocked");
            if let ConnEnd::Panicked(p) = &out.end {
                return v.fail_with(format!("panic: {p}"));
            }
            if matches!(out.end, ConnEnd::Stalled) {
                return v.fail_with("connection never completed");
            }
            let q = max_queued(&out, &ends);
            // one decode pass turns a whole read buffer into queued requests; the queue-length test
            // is made before the pass
            // (and while the queue is full the read buffer fills up once more with undecoded requests)
            let q_bound = MAX_PIPELINED + 2 * (READ_BUF_CAP / req_len) as i64 + 2;
            if q > q_bound {
                return v.fail_with(format!(
                    "{q} complete requests were taken from the socket ahead of dispatch (bound {q_bound} for {req_len}-byte requests; {n} sent): the pipeline queue is not bounded"
                ));
            }
            if out.max_inflight > INFLIGHT_BOUND {
                return v.fail_with(format!(
                    "bytes taken ran {} ahead of dispatched requests (bound {INFLIGHT_BOUND})",
                    out.max_inflight
                ));
            }
            if out.reqs.len() != *n as usize {
                return v.fail_with(format!("{} of {n} pipelined requests were dispatched", out.reqs.len()));
            }
            v
        }
        Case::Response { chunks, chunk_len, kind, write_buf, w, pend } => {
            let body = BodyProg {
                kind: match kind {
                    0 => BodyKind::Stream,
                    1 => BodyKind::SizedStream(chunks * chunk_len),
                    _ => BodyKind::Custom(h1engine::CustomHint::Stream),
                },
                chunks: (0..*chunks)
                    .map(|i| ChunkProg { len: *chunk_len, pending: if i % 3 == 0 { *pend } else { 0 }, delay_ms: 0 })
                    .collect(),
                fail_at_end: false,
                seed: 3,
                style: 3,
            };
            let prog = HandlerProg {
                pre_yields: 0,
                pre_delay_ms: 0,
                read: ReadProg::All,
                read_pace_ms: 0,
                post_delay_ms: 0,
                fail: false,
                resp: RespProg { body, ..simple_resp() },
            };
            let input = b"GET /dl HTTP/1.1\r\n\r\n".to_vec();
            let ops = vec![PeerOp::Send(0, input.len()), PeerOp::WaitClose(600_000), PeerOp::Eof];
            let mut sc = Scenario::new(
                SrvCfg { write_buf: *write_buf, ka: KaCfg::Timeout(1000), ..Default::default() },
                vec![prog],
                input,
                ops,
            );
            sc.wsched = Some(w.clone());
            sc.capture_bodies = false;
            let out = h1engine::run(sc);
            let total = (*chunks as u64) * (*chunk_len as u64);
            // the chunked framing of one chunk and the response head are buffered with it
            let bound = *write_buf as i64 + *chunk_len as i64 + 1024;
            let v = Verdict::ok()
                .nt(total as i64 >= 10 * bound)
                .class_if(*write_buf <= 64, "tiny-write-buffer")
                .class_if(*write_buf >= 1 << 20, "huge-write-buffer")
                .class_if(*chunk_len >= 32_768, "big-chunks");
            if let ConnEnd::Panicked(p) = &out.end {
                return v.fail_with(format!("panic: {p}"));
            }
            if matches!(out.end, ConnEnd::Stalled) {
                return v.fail_with("connection never completed");
            }
            if out.max_pulled_ahead > bound {
                return v.fail_with(format!(
                    "{} body bytes were pulled from the response body ahead of what the socket accepted (bound {bound} = write buffer {write_buf} + one chunk {chunk_len} + 1 KiB)",
                    out.max_pulled_ahead
                ));
            }
            let parsed = httpwire::parse_responses(&out.out, &[false], out.closed());
            match parsed.responses.first() {
                Some(r) if r.complete && r.body_len as u64 == total => {}
                other => {
                    return v.fail_with(format!(
                        "response body incomplete: {:?} of {total} bytes",
                        other.map(|r| (r.complete, r.body_len))
                    ))
                }
            }
            v
        }
    }
}

pub fn run(cfg: &RunCfg) -> Report {
    let mut rep = Report::new("C05");
    rep.rule = format!(
        "cases = (a) request heads of 1 B..600 KiB (one huge header / up to 20 000 small headers / endless first line / never terminated), (b) bodies of 0.2..12 MB (Content-Length and chunked with chunk sizes 1 B..1 MB) against consumers that never read / read slowly / stop after n bytes / drop the payload, optionally queued behind a request whose handler takes 1-3000 ms, (c) 20..60 000 pipelined minimal requests behind slow handlers and a blocked socket, (d) streaming responses of up to 6 MB in chunks of 1 B..64 KiB with h1_write_buffer_size 1..1 MiB against a socket that accepts 1..20 000 bytes per refusal; all with unlimited peer send rate and segment sizes whole / 64 KiB / random; \
         non-trivial = input (or response) volume >= 10x the relevant bound (2x for pipelines) with a consumer or socket slower than the producer, or a head over the limit / never terminated; bounds: in-flight bytes <= {INFLIGHT_BOUND}, queued requests <= 16 + 2*(256 KiB/request size) + 2, body bytes pulled ahead of the socket <= write buffer + one chunk + 1 KiB, head refused with 431 after at most 256 KiB + 8 KiB taken"
    );
    rep.assumptions = vec![
        "black-box accounting: bytes handed out by the scripted socket minus (heads of dispatched requests + body bytes delivered to handlers); body bytes pulled from the response body minus all bytes the socket accepted".into(),
        "bounds derive from MAX_BUFFER_SIZE 131072 (read buffer capacity doubles to 262144 and one read may fill it), HW_BUFFER_SIZE 8192, payload MAX_BUFFER_SIZE 32768, MAX_PIPELINED_MESSAGES 16 with measured head-room; allocator fragmentation and per-object overhead are not bounded (allocator high-water mark is a coarse second signal)".into(),
        "request-body bytes the server discards (payload object dropped: drain of a chunked body, or a handler that dropped the payload at once) are not held; the in-flight bound is evaluated while the payload object is alive, the allocator high-water mark covers the rest".into(),
    ];
    runner::replay_pinned(&mut rep, cfg, &replay);
    runner::replay_regress(&mut rep, cfg, &replay);
    explore(&mut rep, cfg, "head", cfg.cases(4000, 80_000), || case_strategy(0), |c| run_case(cfg, c));
    explore(&mut rep, cfg, "body", cfg.cases(800, 16_000), || case_strategy(1), |c| run_case(cfg, c));
    explore(&mut rep, cfg, "pipeline", cfg.cases(400, 8_000), || case_strategy(2), |c| run_case(cfg, c));
    explore(&mut rep, cfg, "response", cfg.cases(3000, 60_000), || case_strategy(3), |c| run_case(cfg, c));
    rep
}

pub fn replay(cfg: &RunCfg, _phase: &str, case: &serde_json::Value) -> Result<Verdict, String> {
    let c: Case = runner::from_json(case)?;
    Ok(run_case(cfg, &c))
}
