//! Small shared helpers: hashing, quiet panic hook, deterministic data, text rendering.

use std::{
    cell::RefCell,
    hash::{Hash, Hasher},
    panic,
    sync::Once,
};

/// FNV-1a 64 bit — stable across runs and platforms (std's SipHash keys are not a concern here,
/// but a fixed function keeps replay file names stable).
#[derive(Clone, Copy)]
pub struct Fnv(pub u64);

impl Default for Fnv {
    fn default() -> Self {
        Fnv(0xcbf29ce484222325)
    }
}

impl Hasher for Fnv {
    fn finish(&self) -> u64 {
        self.0
    }
    fn write(&mut self, bytes: &[u8]) {
        for b in bytes {
            self.0 ^= *b as u64;
            self.0 = self.0.wrapping_mul(0x100000001b3);
        }
    }
}

pub fn hash_bytes(b: &[u8]) -> u64 {
    let mut h = Fnv::default();
    h.write(b);
    h.finish()
}

pub fn hash_of<T: Hash>(t: &T) -> u64 {
    let mut h = Fnv::default();
    t.hash(&mut h);
    h.finish()
}

thread_local! {
    static LAST_PANIC: RefCell<Option<String>> = const { RefCell::new(None) };
    static CATCH_DEPTH: std::cell::Cell<u32> = const { std::cell::Cell::new(0) };
}

static HOOK: Once = Once::new();

/// Install a panic hook that records `message @ file:line` in a thread local instead of printing a
/// backtrace (RUST_BACKTRACE is set in this image and campaigns may hit tolerated panics often).
pub fn install_quiet_panic_hook() {
    HOOK.call_once(|| {
        panic::set_hook(Box::new(|info| {
            let msg = if let Some(s) = info.payload().downcast_ref::<&str>() {
                (*s).to_string()
            } else if let Some(s) = info.payload().downcast_ref::<String>() {
                s.clone()
            } else {
                "<non-string panic payload>".to_string()
            };
            let loc = info
                .location()
                .map(|l| format!("{}:{}", l.file(), l.line()))
                .unwrap_or_else(|| "<unknown>".into());
            let text = format!("{msg} @ {loc}");
            let tokio_worker = std::thread::current().name().is_none_or(|n| n != "main");
            let _ = tokio_worker;
            if std::env::var_os("VP_PANIC_TRACE").is_some() || CATCH_DEPTH.with(|d| d.get()) == 0 {
                eprintln!("[panic] {text}");
            }
            LAST_PANIC.with(|p| *p.borrow_mut() = Some(text));
        }));
    });
}

pub fn take_last_panic() -> Option<String> {
    LAST_PANIC.with(|p| p.borrow_mut().take())
}

/// Run `f`, converting a panic into `Err("panic: …")`.
pub fn catch<T>(f: impl FnOnce() -> T) -> Result<T, String> {
    install_quiet_panic_hook();
    let _ = take_last_panic();
    CATCH_DEPTH.with(|d| d.set(d.get() + 1));
    let r = panic::catch_unwind(panic::AssertUnwindSafe(f));
    CATCH_DEPTH.with(|d| d.set(d.get() - 1));
    match r {
        Ok(v) => Ok(v),
        Err(_) => Err(format!(
            "panic: {}",
            take_last_panic().unwrap_or_else(|| "<no message>".into())
        )),
    }
}

/// Deterministic pseudo-random byte at `(seed, offset)`; used for bodies so that cases stay small
/// (a body is described by seed + length, not by its bytes).
#[inline]
pub fn data_byte(seed: u64, off: u64) -> u8 {
    let mut x = seed
        .wrapping_mul(0x9E3779B97F4A7C15)
        .wrapping_add(off.wrapping_mul(0xBF58476D1CE4E5B9));
    x ^= x >> 31;
    x = x.wrapping_mul(0x94D049BB133111EB);
    x ^= x >> 29;
    (x & 0xff) as u8
}

/// Body bytes for `(seed, len)`. `style` selects the alphabet:
/// 0 = arbitrary bytes, 1 = printable, 2 = bytes that look like HTTP (request-shaped), 3 = constant.
pub fn data(seed: u64, style: u8, len: usize) -> Vec<u8> {
    match style {
        0 => (0..len as u64).map(|i| data_byte(seed, i)).collect(),
        1 => (0..len as u64)
            .map(|i| b'a' + data_byte(seed, i) % 26)
            .collect(),
        2 => {
            let pat = format!("GET /inbody-{} HTTP/1.1\r\nHost: x\r\n\r\n", seed % 1000);
            pat.as_bytes().iter().cycle().take(len).copied().collect()
        }
        _ => vec![b'x'; len],
    }
}

/// Render bytes for humans: printable ASCII kept, the rest escaped; long runs elided.
pub fn show_bytes(b: &[u8], max: usize) -> String {
    let mut s = String::new();
    let n = b.len().min(max);
    for &c in &b[..n] {
        match c {
            b'\r' => s.push_str("\\r"),
            b'\n' => s.push_str("\\n"),
            b'\\' => s.push_str("\\\\"),
            0x20..=0x7e => s.push(c as char),
            _ => s.push_str(&format!("\\x{c:02x}")),
        }
    }
    if b.len() > max {
        s.push_str(&format!("…(+{} bytes)", b.len() - max));
    }
    s
}

/// Monotone index mapping for shrinking-friendly selection from a u16.
#[inline]
pub fn pick_idx(sel: u16, len: usize) -> usize {
    if len == 0 {
        0
    } else {
        ((sel as usize) * len) >> 16
    }
}

pub fn find_sub(h: &[u8], n: &[u8]) -> Option<usize> {
    if n.is_empty() {
        return Some(0);
    }
    h.windows(n.len()).position(|w| w == n)
}

pub fn lower(s: &str) -> String {
    s.to_ascii_lowercase()
}

/// Wraps the connection future: a task that is polled `limit` times while the (paused) clock
/// shows the same instant is spinning - it wakes itself without anything happening, so virtual
/// time can never advance and the virtual deadline would never fire. The wrapper ends such a run
/// with `Err`, which the engines report as a connection that never completed.
pub struct PollBudget<F> {
    fut: std::pin::Pin<Box<F>>,
    last: tokio::time::Instant,
    n: u64,
    limit: u64,
}

impl<F: std::future::Future> PollBudget<F> {
    pub fn new(fut: F, limit: u64) -> Self {
        PollBudget { fut: Box::pin(fut), last: tokio::time::Instant::now(), n: 0, limit }
    }
}

impl<F: std::future::Future> std::future::Future for PollBudget<F> {
    type Output = Result<F::Output, String>;
    fn poll(mut self: std::pin::Pin<&mut Self>, cx: &mut std::task::Context<'_>) -> std::task::Poll<Self::Output> {
        let now = tokio::time::Instant::now();
        if now != self.last {
            self.last = now;
            self.n = 0;
        }
        self.n += 1;
        if self.n > self.limit {
            return std::task::Poll::Ready(Err(format!("SPIN: the connection task was polled {} times at one virtual instant", self.limit)));
        }
        self.fut.as_mut().poll(cx).map(Ok)
    }
}

pub const SPIN_LIMIT: u64 = 3_000_000;
