//! C01 — HTTP/1 request framing is unambiguous and independent of TCP segmentation.
//!
//! Ground truth by construction: the generator renders abstract requests to bytes, so the
//! expected request sequence is known without re-parsing. Malformed-framing classes are injected
//! at the end of a valid prefix and followed by an attack suffix (`GET /smuggled-N`), which must
//! never be dispatched.

use proptest::prelude::*;
use serde::{Deserialize, Serialize};

use crate::{
    gen::{self, ReqOpts, SegSpec},
    h1engine::{self, BodyEnd, ConnEnd, HandlerProg, KaCfg, Scenario, SrvCfg},
    httpwire::{self, ReqSpec},
    runner::{self, explore, Report, RunCfg, Verdict},
    simnet::PeerOp,
    util,
};

#[derive(Debug, Clone, Serialize, Deserialize, PartialEq, Eq, Hash)]
pub enum Bad {
    // ---- head-level: request must never be dispatched
    ClAndTe,
    ClTwiceSame,
    ClTwiceDiff,
    /// Content-Length value from the menu
    ClValue(u8),
    /// Transfer-Encoding value from the menu
    TeValue(u8),
    TeTwice,
    TeHttp10,
    Http10PostNoCl,
    HugeHead(u8),
    TooManyHeaders,
    BadRequestLine(u8),
    HeaderNoColon,
    SpaceBeforeColon,
    // ---- body-level (chunk syntax): request may be dispatched, its body must end with an error
    ChunkNonHex(u8),
    ChunkEmptySize,
    ChunkSizeOverflow,
    ChunkMissingCrlf,
    ChunkBadTerminator,
    ChunkCtlInExt,
    ChunkLfOnly,
    /// chunk data followed by a bare LF (k % 3: after the data / after the last-chunk line / both)
    ChunkDataLfOnly(u8),
    // ---- lenient: either parsed exactly as rendered or rejected
    Trailer,
    BareLfHead,
    // ---- truncation by EOF at a point inside the message (sel picks the offset)
    TruncHead(u16),
    TruncLenBody(u16),
    TruncChunked(u16),
}

const CL_VALUES: &[&str] = &[
    "+5",
    "-1",
    "5x",
    "0x5",
    "",
    "5,5",
    "5, 5",
    "18446744073709551616",
    "99999999999999999999999",
    "5 5",
    "٥",
    "1e1",
    "5.0",
];
const TE_VALUES: &[&str] = &[
    "gzip",
    "identity",
    "chunked, gzip",
    "gzip, chunked",
    "xchunked",
    "chunkedx",
    "chunked,chunked",
    "chunked;q=1",
    "",
    "\"chunked\"",
];

#[derive(Debug, Clone, Serialize, Deserialize)]
pub struct Case {
    pub reqs: Vec<ReqSpec>,
    pub bad: Option<Bad>,
    pub seg: SegSpec,
    /// peer half-closes after sending everything (otherwise waits for the server to close)
    pub eof_after: bool,
    /// per-request handler slowness selector (0 = immediate): pre-delay and read pacing, so that
    /// later requests are decoded and queued while earlier ones are still in flight
    #[serde(default)]
    pub slow: Vec<u8>,
}

pub struct BadRender {
    pub bytes: Vec<u8>,
    /// request may legitimately be dispatched (head is fine); body must then not end cleanly
    pub head_ok: Option<BadHead>,
    /// lenient class: a clean, exact parse is also acceptable
    pub lenient: bool,
    /// true body bytes that may be delivered before the defect
    pub body_prefix: Vec<u8>,
    /// peer sends EOF right after these bytes (truncation)
    pub truncated: bool,
}

pub struct BadHead {
    pub method: &'static str,
    pub target: String,
}

pub const BAD_TARGET: &str = "/bad-request-target";

pub fn render_bad(b: &Bad, n: usize) -> BadRender {
    let t = format!("{BAD_TARGET}-{n}");
    let head_bad = |s: String| BadRender {
        bytes: s.into_bytes(),
        head_ok: None,
        lenient: false,
        body_prefix: vec![],
        truncated: false,
    };
    let chunk_bad = |body: &str, prefix: &[u8]| BadRender {
        bytes: format!("POST {t} HTTP/1.1\r\nHost: x\r\nTransfer-Encoding: chunked\r\n\r\n{body}").into_bytes(),
        head_ok: Some(BadHead {
            method: "POST",
            target: t.clone(),
        }),
        lenient: false,
        body_prefix: prefix.to_vec(),
        truncated: false,
    };
    match b {
        Bad::ClAndTe => head_bad(format!(
            "POST {t} HTTP/1.1\r\nHost: x\r\nContent-Length: 5\r\nTransfer-Encoding: chunked\r\n\r\n0\r\n\r\n"
        )),
        Bad::ClTwiceSame => head_bad(format!(
            "POST {t} HTTP/1.1\r\nContent-Length: 5\r\nHost: x\r\nContent-Length: 5\r\n\r\nhello"
        )),
        Bad::ClTwiceDiff => head_bad(format!(
            "POST {t} HTTP/1.1\r\nContent-Length: 5\r\nContent-Length: 6\r\n\r\nhello!"
        )),
        Bad::ClValue(i) => head_bad(format!(
            "POST {t} HTTP/1.1\r\nHost: x\r\nContent-Length: {}\r\n\r\nhello",
            CL_VALUES[*i as usize % CL_VALUES.len()]
        )),
        Bad::TeValue(i) => head_bad(format!(
            "POST {t} HTTP/1.1\r\nHost: x\r\nTransfer-Encoding: {}\r\n\r\n5\r\nhello\r\n0\r\n\r\n",
            TE_VALUES[*i as usize % TE_VALUES.len()]
        )),
        Bad::TeTwice => head_bad(format!(
            "POST {t} HTTP/1.1\r\nTransfer-Encoding: chunked\r\nTransfer-Encoding: chunked\r\n\r\n5\r\nhello\r\n0\r\n\r\n"
        )),
        Bad::TeHttp10 => head_bad(format!(
            "POST {t} HTTP/1.0\r\nConnection: keep-alive\r\nTransfer-Encoding: chunked\r\n\r\n5\r\nhello\r\n0\r\n\r\n"
        )),
        Bad::Http10PostNoCl => head_bad(format!(
            "POST {t} HTTP/1.0\r\nConnection: keep-alive\r\n\r\n"
        )),
        Bad::HugeHead(k) => {
            // The server stops *reading* once 128 KiB are buffered, but a single read may bring in
            // as much as the buffer's spare capacity (BytesMut grows by doubling), so whether a
            // head above 128 KiB is refused (431/400) or parsed depends on read sizes. The header
            // variant is therefore a lenient class (exact parse or 4xx + close); the query variant
            // can never be dispatched (the URI limit is 64 KiB) and must be a 4xx.
            // The byte bound itself is C05's subject.
            let size = match k % 4 {
                0 => 131_072,
                1 => 200_000,
                2 => 300_000,
                _ => 600_000,
            };
            let fill = "a".repeat(size);
            if (k / 4) % 2 == 0 {
                BadRender {
                    bytes: format!("GET {t} HTTP/1.1\r\nX-Fill: {fill}\r\n\r\n").into_bytes(),
                    head_ok: Some(BadHead {
                        method: "GET",
                        target: t.clone(),
                    }),
                    lenient: true,
                    body_prefix: vec![],
                    truncated: false,
                }
            } else {
                head_bad(format!("GET {t}?{fill} HTTP/1.1\r\nHost: x\r\n\r\n"))
            }
        }
        Bad::TooManyHeaders => {
            let mut s = format!("GET {t} HTTP/1.1\r\n");
            for i in 0..120 {
                s.push_str(&format!("X-H{i}: v\r\n"));
            }
            s.push_str("\r\n");
            head_bad(s)
        }
        Bad::BadRequestLine(k) => head_bad(match k % 6 {
            0 => format!("G\x01T {t} HTTP/1.1\r\nHost: x\r\n\r\n"),
            1 => format!("GET {t} HTTP/2.0\r\nHost: x\r\n\r\n"),
            2 => "GET  HTTP/1.1\r\nHost: x\r\n\r\n".to_string(),
            3 => format!("GET {t} HTTX/1.1\r\nHost: x\r\n\r\n"),
            4 => format!("GET {t}\r\nHost: x\r\n\r\n"),
            _ => format!("GET {t} HTTP/1.1 extra\r\nHost: x\r\n\r\n"),
        }),
        Bad::HeaderNoColon => head_bad(format!("GET {t} HTTP/1.1\r\nHost x\r\n\r\n")),
        Bad::SpaceBeforeColon => head_bad(format!(
            "POST {t} HTTP/1.1\r\nContent-Length : 5\r\n\r\nhello"
        )),
        Bad::ChunkNonHex(k) => match k % 5 {
            0 => chunk_bad("xyz\r\nhello\r\n0\r\n\r\n", b""),
            1 => chunk_bad("5\r\nhello\r\n-1\r\nx\r\n0\r\n\r\n", b"hello"),
            2 => chunk_bad("0x5\r\nhello\r\n0\r\n\r\n", b""),
            3 => chunk_bad("5 5\r\nhello\r\n0\r\n\r\n", b""),
            _ => chunk_bad("5\r\nhello\r\n+3\r\nabc\r\n0\r\n\r\n", b"hello"),
        },
        Bad::ChunkEmptySize => chunk_bad("5\r\nhello\r\n\r\n\r\n", b"hello"),
        // 2^64 + 3: an implementation that lets the size wrap reads a well-formed 3-byte chunk
        Bad::ChunkSizeOverflow => chunk_bad("5\r\nhello\r\n10000000000000003\r\nabc\r\n0\r\n\r\n", b"hello"),
        Bad::ChunkMissingCrlf => chunk_bad("5\r\nhelloXX\r\n0\r\n\r\n", b"hello"),
        Bad::ChunkBadTerminator => chunk_bad("5\r\nhello\r\n0\r\nX\r\n", b"hello"),
        Bad::ChunkCtlInExt => chunk_bad("5;a=\x01b\r\nhello\r\n0\r\n\r\n", b""),
        Bad::ChunkLfOnly => chunk_bad("5\nhello\r\n0\r\n\r\n", b""),
        Bad::ChunkDataLfOnly(k) => match k % 3 {
            0 => chunk_bad("5\r\nhello\n0\r\n\r\n", b"hello"),
            1 => chunk_bad("5\r\nhello\r\n0\r\n\n", b"hello"),
            _ => chunk_bad("5\r\nhello\n3\r\nabc\n0\r\n\r\n", b"hello"),
        },
        Bad::Trailer => BadRender {
            lenient: true,
            ..chunk_bad("5\r\nhello\r\n0\r\nX-Trailer: v\r\n\r\n", b"hello")
        },
        Bad::BareLfHead => BadRender {
            bytes: format!("POST {t} HTTP/1.1\nHost: x\nContent-Length: 5\n\nhello").into_bytes(),
            head_ok: Some(BadHead {
                method: "POST",
                target: t.clone(),
            }),
            lenient: true,
            body_prefix: b"hello".to_vec(),
            truncated: false,
        },
        Bad::TruncHead(sel) => {
            let full = format!("POST {t} HTTP/1.1\r\nHost: example\r\nContent-Length: 5\r\n\r\n");
            let cut = 1 + util::pick_idx(*sel, full.len() - 1);
            BadRender {
                bytes: full.as_bytes()[..cut].to_vec(),
                head_ok: None,
                lenient: false,
                body_prefix: vec![],
                truncated: true,
            }
        }
        Bad::TruncLenBody(sel) => {
            let body = util::data(*sel as u64, 2, 300);
            let head = format!("POST {t} HTTP/1.1\r\nHost: x\r\nContent-Length: 300\r\n\r\n");
            let cut = util::pick_idx(*sel, 300);
            let mut bytes = head.into_bytes();
            bytes.extend_from_slice(&body[..cut]);
            BadRender {
                bytes,
                head_ok: Some(BadHead {
                    method: "POST",
                    target: t.clone(),
                }),
                lenient: false,
                body_prefix: body[..cut].to_vec(),
                truncated: true,
            }
        }
        Bad::TruncChunked(sel) => {
            let full = b"a\r\n0123456789\r\n14;x=y\r\nGET /inbody HTTP/1.1\r\n\r\n0\r\n\r\n";
            let cut = util::pick_idx(*sel, full.len()); // strictly before the end
            let head = format!("POST {t} HTTP/1.1\r\nHost: x\r\nTransfer-Encoding: chunked\r\n\r\n");
            let mut bytes = head.into_bytes();
            bytes.extend_from_slice(&full[..cut]);
            let mut all = b"0123456789".to_vec();
            all.extend_from_slice(b"GET /inbody HTTP/1.1");
            BadRender {
                bytes,
                head_ok: Some(BadHead {
                    method: "POST",
                    target: t.clone(),
                }),
                lenient: false,
                body_prefix: all,
                truncated: true,
            }
        }
    }
}

pub fn bad_strategy() -> impl Strategy<Value = Bad> {
    prop_oneof![
        Just(Bad::ClAndTe),
        Just(Bad::ClTwiceSame),
        Just(Bad::ClTwiceDiff),
        (0u8..CL_VALUES.len() as u8).prop_map(Bad::ClValue),
        (0u8..CL_VALUES.len() as u8).prop_map(Bad::ClValue),
        (0u8..TE_VALUES.len() as u8).prop_map(Bad::TeValue),
        (0u8..TE_VALUES.len() as u8).prop_map(Bad::TeValue),
        Just(Bad::TeTwice),
        Just(Bad::TeHttp10),
        Just(Bad::Http10PostNoCl),
        (0u8..8).prop_map(Bad::HugeHead),
        Just(Bad::TooManyHeaders),
        (0u8..6).prop_map(Bad::BadRequestLine),
        Just(Bad::HeaderNoColon),
        Just(Bad::SpaceBeforeColon),
        (0u8..5).prop_map(Bad::ChunkNonHex),
        Just(Bad::ChunkEmptySize),
        Just(Bad::ChunkSizeOverflow),
        Just(Bad::ChunkMissingCrlf),
        Just(Bad::ChunkBadTerminator),
        Just(Bad::ChunkCtlInExt),
        Just(Bad::ChunkLfOnly),
        (0u8..3).prop_map(Bad::ChunkDataLfOnly),
        Just(Bad::Trailer),
        Just(Bad::BareLfHead),
        any::<u16>().prop_map(Bad::TruncHead),
        any::<u16>().prop_map(Bad::TruncLenBody),
        any::<u16>().prop_map(Bad::TruncChunked),
    ]
}

const REQ_OPTS: ReqOpts = ReqOpts {
    with_head: true,
    allow_close: false,
    allow_http10: true,
    allow_expect: true,
    max_body: 200_000,
};

fn case_strategy(with_bad: bool, with_head: bool) -> impl Strategy<Value = Case> {
    (
        proptest::collection::vec(gen::req_spec(ReqOpts { with_head, ..REQ_OPTS }), 0..6),
        if with_bad {
            bad_strategy().prop_map(Some).boxed()
        } else {
            Just(None).boxed()
        },
        gen::seg_spec(),
        proptest::bool::weighted(0.7),
        proptest::bool::weighted(0.12),
        proptest::collection::vec(prop_oneof![5 => Just(0u8), 3 => 1u8..6], 0..7),
    )
        .prop_map(|(mut reqs, bad, seg, eof_after, last_closes, slow)| {
            if reqs.is_empty() && bad.is_none() {
                reqs.push(ReqSpec::get("/only"));
            }
            // only the last valid request may ask for close (C03 owns close discipline)
            if last_closes && bad.is_none() {
                if let Some(l) = reqs.last_mut() {
                    l.conn = httpwire::ConnOpt::Close;
                }
            }
            Case {
                reqs,
                bad,
                seg,
                eof_after,
                slow,
            }
        })
}

pub fn known_class(cfg: &RunCfg, case: &Case) -> Option<&'static str> {
    if matches!(case.bad, Some(Bad::ChunkEmptySize)) && cfg.kf.active("C01", "empty-chunk-size-line") {
        return Some("empty-chunk-size-line");
    }
    None
}

pub fn run_case(cfg: &RunCfg, case: &Case, strict: bool) -> Verdict {
    if !strict {
        if let Some(k) = known_class(cfg, case) {
            return Verdict::excluded(k);
        }
    }
    let rendered = httpwire::render_pipeline(&case.reqs);
    let mut input = rendered.bytes.clone();
    let valid_len = input.len();
    let bad = case.bad.as_ref().map(|b| render_bad(b, case.reqs.len()));
    let mut attack_target = None;
    if let Some(b) = &bad {
        input.extend_from_slice(&b.bytes);
        if !b.truncated {
            let t = format!("/smuggled-{}", case.reqs.len());
            input.extend_from_slice(format!("GET {t} HTTP/1.1\r\nHost: evil\r\n\r\n").as_bytes());
            attack_target = Some(t);
        }
    }
    let total = input.len();
    let mut marks = rendered.marks.clone();
    // a few generic marks inside the malformed part
    if total > valid_len + 2 {
        for p in [valid_len + 1, valid_len + (total - valid_len) / 2, total - 1] {
            marks.in_head.push(p);
        }
        marks.boundaries.push(valid_len);
    }
    let cuts = gen::resolve_cuts(&case.seg, &marks, total);
    let sels: Vec<u16> = case.seg.cuts.iter().map(|c| c.sel).collect();
    let mut ops = gen::seg_ops(&cuts, total, case.seg.pause, &sels);
    let truncated = bad.as_ref().is_some_and(|b| b.truncated);
    // Listed finding: a peer half-close that arrives while already-received body bytes are still
    // undecoded because of back-pressure makes the dispatcher fail that body as Incomplete.
    // While listed, such cases keep the connection open instead of half-closing (excluded by
    // construction; counted), so everything else about them is still checked.
    let mut halfclose_skipped = false;
    let mut want_eof = truncated || (case.eof_after && bad.is_none());
    if want_eof
        && !strict
        && cfg.kf.active("C01", "half-close-discards-buffered-body")
        && case.reqs.iter().any(|r| r.body_len() >= 32_768)
    {
        if truncated {
            return Verdict::excluded("half-close-discards-buffered-body");
        }
        want_eof = false;
        halfclose_skipped = true;
    }
    if want_eof {
        ops.push(PeerOp::Eof);
    } else {
        ops.push(PeerOp::WaitClose(20_000));
        ops.push(PeerOp::Eof);
    }
    let progs: Vec<HandlerProg> = (0..case.reqs.len() + 2)
        .map(|i| {
            let mut p = HandlerProg::simple();
            p.resp.body = h1engine::BodyProg::bytes(3 + (i as u32 % 5), i as u64);
            match case.slow.get(i).copied().unwrap_or(0) {
                0 => {}
                1 => p.pre_delay_ms = 1,
                2 => p.pre_delay_ms = 40,
                3 => p.read_pace_ms = 1,
                4 => {
                    p.pre_delay_ms = 7;
                    p.read_pace_ms = 2;
                }
                _ => p.post_delay_ms = 300,
            }
            p
        })
        .collect();
    let cfg_srv = SrvCfg {
        ka: KaCfg::Timeout(5000),
        ..Default::default()
    };
    let sc = Scenario::new(cfg_srv, progs, input.clone(), ops);
    let out = h1engine::run(sc);

    // ---- classification
    let has_body = case.reqs.iter().any(|r| r.body_len() > 0);
    let interesting_cut = gen::cut_touches(&cuts, &rendered.marks.in_crlf)
        || gen::cut_touches(&cuts, &rendered.marks.in_chunk_size)
        || gen::cut_touches(&cuts, &rendered.marks.in_head)
        || gen::cut_touches(&cuts, &rendered.marks.boundaries[..rendered.marks.boundaries.len().saturating_sub(1)]);
    let nt = (case.reqs.len() >= 2 && has_body && interesting_cut) || (bad.is_some() && (attack_target.is_some() || truncated));
    let mut v = Verdict::ok().nt(nt);
    if halfclose_skipped {
        v = v.kf_skip("half-close-discards-buffered-body");
    }
    v = v
        .class_if(bad.is_none(), "valid")
        .class_if(bad.is_some(), "malformed")
        .class_if(cuts.is_empty(), "seg-whole")
        .class_if(case.seg.one_byte && total <= 3000, "seg-1byte")
        .class_if(gen::cut_touches(&cuts, &rendered.marks.in_crlf), "cut-in-crlf")
        .class_if(gen::cut_touches(&cuts, &rendered.marks.in_chunk_size), "cut-in-chunk-size")
        .class_if(gen::cut_touches(&cuts, &rendered.marks.boundaries), "cut-at-boundary")
        .class_if(total > 131_072, "gt-128k")
        .class_if(case.slow.iter().take(case.reqs.len()).any(|s| *s != 0), "slow-handler")
        .class_if(case.reqs.iter().any(|r| matches!(r.framing, httpwire::Framing::Chunked{..})), "has-chunked");
    if let Some(b) = &case.bad {
        v = v.class(match b {
            Bad::ClAndTe | Bad::ClTwiceSame | Bad::ClTwiceDiff | Bad::ClValue(_) => "bad-content-length",
            Bad::TeValue(_) | Bad::TeTwice | Bad::TeHttp10 => "bad-transfer-encoding",
            Bad::HugeHead(_) | Bad::TooManyHeaders => "bad-oversize",
            Bad::ChunkNonHex(_) | Bad::ChunkEmptySize | Bad::ChunkSizeOverflow | Bad::ChunkMissingCrlf
            | Bad::ChunkBadTerminator | Bad::ChunkCtlInExt | Bad::ChunkLfOnly | Bad::ChunkDataLfOnly(_) => "bad-chunk-syntax",
            Bad::Trailer | Bad::BareLfHead => "lenient",
            Bad::TruncHead(_) | Bad::TruncLenBody(_) | Bad::TruncChunked(_) => "truncated",
            _ => "bad-head-other",
        });
    }

    // ---- oracle
    if let ConnEnd::Panicked(p) = &out.end {
        return v.fail_with(format!("panic in connection task: {p}"));
    }
    let expected: Vec<httpwire::ExpectedReq> = case.reqs.iter().map(httpwire::expected).collect();
    // (1) every dispatched request among the first `reqs.len()` equals the ground truth
    for (i, got) in out.reqs.iter().enumerate() {
        if i < expected.len() {
            let e = &expected[i];
            if got.method != e.method || got.target != e.target || got.version != e.version {
                return v.fail_with(format!(
                    "request {i}: saw {} {} v1.{} but the stream carries {} {} v1.{}",
                    got.method, got.target, got.version, e.method, e.target, e.version
                ));
            }
            if got.headers != e.headers {
                return v.fail_with(format!(
                    "request {i} ({}): headers seen {:?} != sent {:?}",
                    e.target, got.headers, e.headers
                ));
            }
            let expect_end = if case.reqs[i].has_body_framing() && !(e.body.is_empty() && !matches!(case.reqs[i].framing, httpwire::Framing::Chunked{..})) {
                BodyEnd::Clean
            } else if matches!(case.reqs[i].framing, httpwire::Framing::Chunked{..}) {
                BodyEnd::Clean
            } else {
                BodyEnd::NoPayload
            };
            if got.body != e.body {
                return v.fail_with(format!(
                    "request {i} ({}): body seen ({} bytes, {}) != body sent ({} bytes, {})",
                    e.target,
                    got.body.len(),
                    util::show_bytes(&got.body, 40),
                    e.body.len(),
                    util::show_bytes(&e.body, 40)
                ));
            }
            match (&got.end, &expect_end) {
                (BodyEnd::Clean, BodyEnd::Clean) | (BodyEnd::NoPayload, BodyEnd::NoPayload) => {}
                // an empty Content-Length: 0 body may be presented as "no payload"
                (BodyEnd::NoPayload, BodyEnd::Clean) | (BodyEnd::Clean, BodyEnd::NoPayload) if e.body.is_empty() => {}
                (g, _) => {
                    return v.fail_with(format!(
                        "request {i} ({}): body of {} bytes ended as {:?}, expected a clean end",
                        e.target,
                        e.body.len(),
                        g
                    ))
                }
            }
        } else if i == expected.len() {
            // the malformed request itself
            let Some(b) = &bad else {
                return v.fail_with(format!(
                    "request {i} dispatched ({} {}) but the stream carries only {} requests",
                    got.method,
                    got.target,
                    expected.len()
                ));
            };
            let Some(h) = &b.head_ok else {
                return v.fail_with(format!(
                    "malformed request {:?} was dispatched to the application as {} {}",
                    case.bad, got.method, got.target
                ));
            };
            if got.method != h.method || got.target != h.target {
                return v.fail_with(format!(
                    "after malformed framing {:?}: dispatched {} {} which is not in the stream's request list",
                    case.bad, got.method, got.target
                ));
            }
            if !b.body_prefix.starts_with(&got.body) {
                return v.fail_with(format!(
                    "malformed body {:?}: delivered bytes {} are not a prefix of the true body {}",
                    case.bad,
                    util::show_bytes(&got.body, 60),
                    util::show_bytes(&b.body_prefix, 60)
                ));
            }
            match &got.end {
                BodyEnd::Error(_) => {}
                BodyEnd::Clean if b.lenient && got.body == b.body_prefix => {}
                BodyEnd::NoPayload if b.lenient && b.body_prefix.is_empty() => {}
                other => {
                    return v.fail_with(format!(
                        "malformed/truncated body {:?}: body stream ended as {:?} after {} bytes instead of an error",
                        case.bad,
                        other,
                        got.body.len()
                    ))
                }
            }
        } else {
            // a lenient class that was accepted exactly as rendered makes the suffix a legitimate
            // next request
            let accepted_lenient = bad.as_ref().is_some_and(|b| b.lenient)
                && matches!(out.reqs[expected.len()].end, BodyEnd::Clean | BodyEnd::NoPayload)
                && i == expected.len() + 1
                && attack_target.as_deref() == Some(got.target.as_str());
            if !accepted_lenient {
                return v.fail_with(format!(
                    "request {i} dispatched ({} {}) after the point of rejection / beyond the stream's request list",
                    got.method, got.target
                ));
            }
        }
    }
    let lenient_accepted = bad.as_ref().is_some_and(|b| b.lenient)
        && out
            .reqs
            .get(expected.len())
            .is_some_and(|r| matches!(r.end, BodyEnd::Clean | BodyEnd::NoPayload));
    if let Some(t) = &attack_target {
        if !lenient_accepted && out.reqs.iter().any(|r| &r.target == t) {
            return v.fail_with(format!("smuggled request {t} was dispatched"));
        }
    }
    // (2) completeness for valid pipelines: all requests up to the first closing one are seen
    let lenient_ok = bad.as_ref().is_some_and(|b| b.lenient) && out.reqs.len() > expected.len();
    if out.reqs.len() < expected.len() {
        let first_close = case
            .reqs
            .iter()
            .position(|r| gen::closes_connection(r, true))
            .map(|p| p + 1)
            .unwrap_or(expected.len());
        let need = if bad.as_ref().is_some_and(|b| b.head_ok.is_none()) || bad.is_none() {
            first_close.min(expected.len())
        } else {
            first_close.min(expected.len())
        };
        if out.reqs.len() < need && !matches!(out.end, ConnEnd::Stalled) {
            return v.fail_with(format!(
                "only {} of {} well-formed requests were dispatched (connection ended: {:?})",
                out.reqs.len(),
                need,
                out.end
            ));
        }
    }
    // (3) wire: responses parse; malformed ⇒ last response is 4xx and the connection is closed
    let mut is_head: Vec<bool> = case.reqs.iter().map(|r| r.is_head()).collect();
    is_head.push(false);
    is_head.push(false);
    let parsed = httpwire::parse_responses(&out.out, &is_head, out.closed());
    if let Some(e) = &parsed.error {
        return v.fail_with(format!("response stream does not parse: {e}"));
    }
    if let Some(b) = &bad {
        if !b.truncated && !lenient_ok {
            if matches!(out.end, ConnEnd::Stalled) || !out.closed() {
                return v.fail_with(format!(
                    "malformed request {:?}: connection was not closed (end={:?})",
                    case.bad, out.end
                ));
            }
            match parsed.responses.last() {
                Some(r) if (400..500).contains(&r.status) => {}
                other => {
                    return v.fail_with(format!(
                        "malformed request {:?}: last response is {:?}, expected a 4xx",
                        case.bad,
                        other.map(|r| r.status)
                    ))
                }
            }
        }
    }
    if matches!(out.end, ConnEnd::Stalled) {
        v = v.class("stalled-not-judged-here");
    }
    v
}

pub fn run(cfg: &RunCfg) -> Report {
    let mut rep = Report::new("C01");
    rep.rule = "cases = pipeline of 0-5 rendered well-formed requests (none/Content-Length/chunked framing with surface variation) optionally followed by one malformed-framing message (27 classes) and an attack suffix `GET /smuggled-N`, delivered under a generated segmentation (cuts in heads, CRLF pairs, chunk-size lines, bodies, at message boundaries, 1-byte reads, pauses); \
                non-trivial = (>=2 requests, >=1 body and a cut inside a head/CRLF/chunk-size line or at a message boundary) or a malformed case with its attack suffix/truncation; distinct by hash of the case"
        .into();
    rep.assumptions = vec![
        "ground truth is the generator's abstract request list, never a re-parse of the bytes".into(),
        "only the last well-formed request may carry Connection: close (close discipline is C03's)".into(),
        "lenient classes (trailer section, bare-LF head) accept either an exact parse or a 4xx rejection".into(),
        "Upgrade/CONNECT requests are outside the domain (they turn the rest of the stream into their body by design)".into(),
    ];
    runner::replay_pinned(&mut rep, cfg, &replay);
    runner::replay_regress(&mut rep, cfg, &replay);
    // While the per-connection codec context defect (C02 finding) is listed, HEAD requests are kept
    // out of these pipelines: a HEAD response framed with a later request's context makes the
    // response stream unparseable, which is C02's subject, not C01's.
    let with_head = !cfg.kf.active("C02", "codec-context-per-connection");
    if !with_head {
        rep.assumptions.push("HEAD requests excluded from pipelines while C02/codec-context-per-connection is a listed finding".into());
    }
    explore(&mut rep, cfg, "valid", cfg.cases(200_000, 4_000_000), || case_strategy(false, with_head), |c| run_case(cfg, c, false));
    explore(&mut rep, cfg, "malformed", cfg.cases(200_000, 4_000_000), || case_strategy(true, with_head), |c| run_case(cfg, c, false));
    rep
}

pub fn replay(cfg: &RunCfg, _phase: &str, case: &serde_json::Value) -> Result<Verdict, String> {
    let c: Case = runner::from_json(case)?;
    Ok(run_case(cfg, &c, cfg.strict))
}
