//! C06 — HTTP/1 connections are time-bounded: slow head, keep-alive, shutdown, drain.
//!
//! Virtual time (tokio paused clock) makes every timer ordering a generated number. Deadlines in
//! actix-http are computed from a clock that a background task refreshes every 500 ms; the
//! harness controls when the service is created relative to the accept (`accept_delay_ms`), so
//! the staleness of that clock — and with it the *exact* deadline — is known:
//!     cached_now(t) = t - ((accept_delay + t) mod 500)         (t relative to accept)
//! Events are generated at, just before and just after the exact deadline (±1 ms), far from it,
//! and never.

use proptest::prelude::*;
use serde::{Deserialize, Serialize};

use crate::{
    h1engine::{self, BodyKind, BodyProg, ChunkProg, ConnEnd, HandlerProg, KaCfg, Outcome, ReadProg, RespProg, Scenario, SrvCfg},
    httpwire,
    runner::{self, explore, Report, RunCfg, Verdict},
    simnet::{PeerOp, WOp},
};

const EPS: i64 = 3;
const G: i64 = 500;

#[derive(Debug, Clone, Serialize, Deserialize, PartialEq, Eq)]
pub enum When {
    /// relative to the exact deadline (ms; negative = before)
    Rel(i32),
    Never,
}

#[derive(Debug, Clone, Serialize, Deserialize, PartialEq, Eq)]
pub enum PeerEnd {
    /// never closes, never sends anything else
    Silent,
    /// half-closes `ms` after the server's decision to end the connection
    EofAfter(u16),
}

#[derive(Debug, Clone, Serialize, Deserialize, PartialEq, Eq)]
pub enum Trigger {
    KaExpiry,
    Head408,
    CloseResponse,
    UnreadBody,
}

#[derive(Debug, Clone, Serialize, Deserialize)]
pub enum Case {
    /// first request head arrives in pieces; the last piece at `done`
    Head { timeout_ms: u32, accept_delay: u16, disc_ms: u32, pieces: u8, first_at: u16, done: When, sels: Vec<u16> },
    /// one request answered after `h_ms`; a second request arrives at `second`
    KeepAlive {
        ka: KaCfg,
        accept_delay: u16,
        h_ms: u16,
        second: When,
        third: When,
        /// the first request is a chunked upload: (handler drops the payload unread, ms at which
        /// the terminating chunk arrives). The idle period starts when the response is written
        /// and the body has been read or drained to its end.
        #[serde(default)]
        upload: Option<(bool, u16)>,
    },
    /// the server decides to end the connection (trigger); the peer is silent / half-closes late /
    /// never reads / its transport never completes shutdown
    Shutdown {
        trigger: Trigger,
        disc_ms: u32,
        accept_delay: u16,
        peer: PeerEnd,
        never_reads: bool,
        shutdown_blocks: bool,
        /// the early response (UnreadBody trigger) has no body: `()` instead of 3 bytes
        #[serde(default)]
        bodiless: bool,
    },
    /// graceful-shutdown signal at `signal_ms`
    Drain {
        signal_ms: u16,
        n: u8,
        h_ms: Vec<u16>,
        body_ms: Vec<u16>,
        arrive_ms: Vec<u16>,
        disc_ms: u32,
        ka: KaCfg,
        /// per request: 0 = no request body; otherwise the request carries a 200-byte body whose
        /// second half arrives this many ms after the first half (handlers read the whole body)
        #[serde(default)]
        upload_gap_ms: Vec<u16>,
    },
    /// graceful-shutdown signal while an upload is incomplete; the end of the upload and a later
    /// request are released together, *after* the signal (mode 0: signal fired in the same
    /// scheduler turn just before the bytes; 2: 1 ms before; 3: half-way through the gap) or at the
    /// same virtual instant by an independent timer (mode 1: no claim about the later request)
    DrainEarly { chunked: bool, drop_body: bool, h_ms: u16, gap_ms: u16, mode: u8, glue: bool, disc_ms: u32 },
}

fn when() -> impl Strategy<Value = When> {
    prop_oneof![
        2 => Just(When::Never),
        3 => (-3i32..=3).prop_map(When::Rel),
        2 => (4i32..60).prop_map(When::Rel),
        2 => (-60i32..-3).prop_map(When::Rel),
        1 => (-3000i32..-60).prop_map(When::Rel),
        1 => (60i32..1500).prop_map(When::Rel),
    ]
}

fn ka_cfg() -> impl Strategy<Value = KaCfg> {
    prop_oneof![
        1 => Just(KaCfg::Disabled),
        1 => Just(KaCfg::Os),
        3 => Just(KaCfg::Timeout(1000)),
        2 => Just(KaCfg::Timeout(5000)),
        1 => (1u32..1500).prop_map(KaCfg::Timeout),
    ]
}

fn case_strategy(kind: u8) -> BoxedStrategy<Case> {
    match kind {
        0 => (
            prop_oneof![1 => Just(0u32), 3 => Just(300u32), 3 => Just(3000u32), 2 => 1u32..2000],
            prop_oneof![2 => Just(0u16), 3 => 0u16..1100],
            prop_oneof![Just(0u32), Just(500u32), Just(2000u32)],
            1u8..5,
            prop_oneof![2 => Just(0u16), 1 => 0u16..400],
            when(),
            proptest::collection::vec(any::<u16>(), 4),
        )
            .prop_map(|(timeout_ms, accept_delay, disc_ms, pieces, first_at, done, sels)| Case::Head {
                timeout_ms,
                accept_delay,
                disc_ms,
                pieces,
                first_at,
                done,
                sels,
            })
            .boxed(),
        1 => (
            ka_cfg(),
            prop_oneof![1 => Just(0u16), 3 => 0u16..1100],
            prop_oneof![2 => Just(0u16), 2 => 1u16..700],
            when(),
            when(),
            prop_oneof![3 => Just(None), 2 => (any::<bool>(), prop_oneof![1 => Just(0u16), 3 => 1u16..900]).prop_map(Some)],
        )
            .prop_map(|(ka, accept_delay, h_ms, second, third, upload)| Case::KeepAlive { ka, accept_delay, h_ms, second, third, upload })
            .boxed(),
        2 => (
            prop_oneof![Just(Trigger::KaExpiry), Just(Trigger::Head408), Just(Trigger::CloseResponse), Just(Trigger::UnreadBody)],
            prop_oneof![1 => Just(0u32), 2 => Just(500u32), 2 => Just(2000u32), 1 => 1u32..3000],
            prop_oneof![1 => Just(0u16), 3 => 0u16..1100],
            prop_oneof![2 => Just(PeerEnd::Silent), 2 => (0u16..3000).prop_map(PeerEnd::EofAfter)],
            any::<bool>(),
            any::<bool>(),
            any::<bool>(),
        )
            .prop_map(|(trigger, disc_ms, accept_delay, peer, never_reads, shutdown_blocks, bodiless)| Case::Shutdown {
                trigger,
                disc_ms,
                accept_delay,
                peer,
                never_reads,
                shutdown_blocks,
                bodiless,
            })
            .boxed(),
        4 => (any::<bool>(), any::<bool>(), prop_oneof![3 => Just(0u16), 2 => 1u16..60], 2u16..300, 0u8..4, any::<bool>(), prop_oneof![Just(0u32), Just(500u32)])
            .prop_map(|(chunked, drop_body, h_ms, gap_ms, mode, glue, disc_ms)| Case::DrainEarly { chunked, drop_body, h_ms, gap_ms, mode, glue, disc_ms })
            .boxed(),
        _ => (
            0u16..900,
            1u8..5,
            proptest::collection::vec(prop_oneof![2 => Just(0u16), 3 => 1u16..400], 4),
            proptest::collection::vec(prop_oneof![3 => Just(0u16), 2 => 1u16..300], 4),
            proptest::collection::vec(prop_oneof![3 => Just(0u16), 2 => 1u16..500], 4),
            prop_oneof![Just(0u32), Just(500u32)],
            prop_oneof![3 => Just(KaCfg::Timeout(5000)), 1 => Just(KaCfg::Os)],
            proptest::collection::vec(prop_oneof![3 => Just(0u16), 2 => 1u16..600], 4),
        )
            .prop_map(|(signal_ms, n, h_ms, body_ms, arrive_ms, disc_ms, ka, upload_gap_ms)| Case::Drain {
                signal_ms,
                n,
                h_ms,
                body_ms,
                arrive_ms,
                disc_ms,
                ka,
                upload_gap_ms,
            })
            .boxed(),
    }
}

/// deadline of a timer armed at `t` (ms since accept) with `timeout`, given the clock staleness
fn exact_deadline(accept_delay: u16, t: i64, timeout: i64) -> i64 {
    t - ((accept_delay as i64 + t).rem_euclid(500)) + timeout
}

/// A timer armed in the very millisecond in which the cached clock is refreshed sees either the old
/// or the new value (two tasks woken by the same timer tick); its deadline is not determined.
fn on_tick(accept_delay: u16, t: i64) -> bool {
    let abs = accept_delay as i64 + t;
    abs > 0 && abs.rem_euclid(500) == 0
}

fn ok_resp(len: u32) -> RespProg {
    RespProg::ok_bytes(len, 7)
}

fn prog(h_ms: u16, resp: RespProg) -> HandlerProg {
    HandlerProg { pre_yields: 0, pre_delay_ms: h_ms, read: ReadProg::All, read_pace_ms: 0, post_delay_ms: 0, fail: false, resp }
}

fn first_out_time(out: &Outcome) -> Option<i64> {
    out.out_log.first().map(|l| l.0 as i64)
}

fn common(v: Verdict, out: &Outcome) -> Result<Verdict, Verdict> {
    if let ConnEnd::Panicked(p) = &out.end {
        return Err(v.fail_with(format!("panic: {p}")));
    }
    Ok(v)
}

pub fn run_case(_cfg: &RunCfg, case: &Case) -> Verdict {
    match case {
        Case::Head { timeout_ms, accept_delay, disc_ms, pieces, first_at, done, sels } => {
            let input = b"GET /slow-head HTTP/1.1\r\nHost: example\r\nX-Filler: aaaaaaaaaaaaaaaaaaaaaaaaaaaaaaaa\r\n\r\n".to_vec();
            let len = input.len();
            let timeout = *timeout_ms as i64;
            // the head timer is armed at the first poll of the connection (accept, t = 0)
            let t_exact = exact_deadline(*accept_delay, 0, timeout).max(0);
            let t_done: Option<i64> = match done {
                When::Never => None,
                When::Rel(d) => Some(if timeout == 0 { (*d as i64).abs() } else { (t_exact + *d as i64).max(0) }),
            };
            // piece boundaries and times
            let k = (*pieces as usize).max(1);
            let mut cuts: Vec<usize> = (1..k).map(|i| 1 + crate::util::pick_idx(sels[i % sels.len()], len - 2)).collect();
            cuts.sort_unstable();
            cuts.dedup();
            let mut ops = vec![];
            let mut now = 0i64;
            let end_time = t_done.unwrap_or(i64::MAX);
            let first = (*first_at as i64).min(end_time.min(100_000));
            let mut prev = 0usize;
            let n_cuts = cuts.len();
            for (i, c) in cuts.iter().chain(std::iter::once(&len)).enumerate() {
                let last = i == n_cuts;
                let at = if last {
                    match t_done {
                        Some(t) => t,
                        None => break,
                    }
                } else if t_done.is_some() {
                    // spread the earlier pieces between `first` and the completion time
                    first + (end_time - first).max(0) * i as i64 / (n_cuts as i64 + 1)
                } else {
                    first + 37 * i as i64
                };
                if at > now {
                    ops.push(PeerOp::Sleep((at - now) as u32));
                    now = at;
                }
                ops.push(PeerOp::Send(prev, *c));
                prev = *c;
            }
            ops.push(PeerOp::WaitClose(20_000));
            ops.push(PeerOp::Eof);
            let cfg = SrvCfg {
                req_timeout_ms: *timeout_ms,
                disc_timeout_ms: *disc_ms,
                accept_delay_ms: *accept_delay,
                ka: KaCfg::Timeout(5000),
                ..Default::default()
            };
            let sc = Scenario::new(cfg, vec![prog(0, ok_resp(3))], input, ops);
            let out = h1engine::run(sc);
            let near = matches!(done, When::Rel(d) if d.abs() <= 50);
            if on_tick(*accept_delay, 0) && timeout > 0 {
                return Verdict::ok().class("armed-on-clock-tick-not-judged");
            }
            let v = Verdict::ok()
                .nt(timeout > 0 && (near || matches!(done, When::Never)))
                .class_if(timeout == 0, "request-timeout-disabled")
                .class_if(matches!(done, When::Never), "head-never-completes")
                .class_if(matches!(done, When::Rel(d) if (-3..=3).contains(d)), "completes-within-3ms-of-deadline")
                .class_if(*accept_delay as i64 % 500 > 0, "stale-clock")
                .class_if(t_exact == 0 && timeout > 0, "deadline-already-due-at-accept");
            let v = match common(v, &out) {
                Ok(v) => v,
                Err(v) => return v,
            };
            let parsed = httpwire::parse_responses(&out.out, &[false, false], out.closed());
            if let Some(e) = &parsed.error {
                return v.fail_with(format!("wire does not parse: {e}"));
            }
            let statuses: Vec<u16> = parsed.responses.iter().map(|r| r.status).collect();
            let has_408 = statuses.contains(&408);
            let served = out.reqs.len() == 1;
            let must_timeout = timeout > 0 && t_done.is_none_or(|t| t > t_exact + EPS);
            let must_serve = timeout == 0 || t_done.is_some_and(|t| t < t_exact - EPS);
            if must_serve && t_done.is_some() {
                if has_408 {
                    return v.fail_with(format!(
                        "head complete at {} ms, before the request deadline ({t_exact} ms; timeout {timeout} ms, clock staleness {} ms), yet a 408 was written",
                        t_done.unwrap(),
                        *accept_delay % 500
                    ));
                }
                if !served || statuses != vec![200] {
                    return v.fail_with(format!("head complete in time but responses are {statuses:?} (dispatched: {served})"));
                }
            }
            if must_timeout {
                if statuses != vec![408] {
                    return v.fail_with(format!(
                        "first head incomplete at the request deadline ({t_exact} ms) but the responses are {statuses:?}"
                    ));
                }
                let t408 = first_out_time(&out).unwrap_or(-1);
                if (t408 - t_exact).abs() > EPS {
                    return v.fail_with(format!(
                        "408 written at {t408} ms, request deadline was {t_exact} ms (timeout {timeout} ms from a clock {} ms stale)",
                        *accept_delay % 500
                    ));
                }
                if t408 < timeout - G - EPS || t408 > timeout + EPS {
                    return v.fail_with(format!("408 at {t408} ms outside [timeout - 500, timeout] = [{}, {timeout}]", timeout - G));
                }
                if served {
                    return v.fail_with("request dispatched although its head missed the deadline");
                }
                // the connection is then closed (peer is silent)
                if matches!(out.end, ConnEnd::Stalled) || out.end_at as i64 > t408 + *disc_ms as i64 + G + EPS {
                    return v.fail_with(format!(
                        "after the 408 (at {t408} ms) the connection completed at {} ms ({:?}); disconnect timeout {disc_ms} ms",
                        out.end_at, out.end
                    ));
                }
            }
            if has_408 && timeout == 0 {
                return v.fail_with("408 with the request timeout disabled");
            }
            if has_408 && statuses.len() > 1 {
                return v.fail_with(format!("something was written after/before the 408: {statuses:?}"));
            }
            v
        }

        Case::KeepAlive { ka, accept_delay, h_ms, second, third, upload } => {
            let one = b"GET /ka HTTP/1.1\r\nHost: x\r\n\r\n";
            // a closing response to an undrained upload is C03's subject (listed findings there)
            let upload = if matches!(ka, KaCfg::Disabled) { None } else { *upload };
            let mut first = one.to_vec();
            let mut first_head_len = first.len();
            if upload.is_some() {
                first = b"POST /ka HTTP/1.1\r\nHost: x\r\nTransfer-Encoding: chunked\r\n\r\n64\r\n".to_vec();
                first.extend(std::iter::repeat(b'u').take(100));
                first.extend_from_slice(b"\r\n");
                first_head_len = first.len();
                first.extend_from_slice(b"0\r\n\r\n");
            }
            let f = first.len();
            let mut input = first;
            input.extend_from_slice(one);
            input.extend_from_slice(one);
            let l = one.len();
            let ka_ms: Option<i64> = match ka {
                KaCfg::Timeout(ms) => Some(*ms as i64),
                _ => None,
            };
            // response i is written when its handler returns (benign socket); the keep-alive timer
            // is armed then - for an upload, once the body has also been read / drained to its end
            let tail_ms = upload.map(|(_, t)| t as i64).unwrap_or(0);
            let t_r1 = (*h_ms as i64).max(tail_ms);
            let d1 = ka_ms.map(|k| exact_deadline(*accept_delay, t_r1, k));
            let at = |w: &When, base: Option<i64>, idle_from: i64| -> Option<i64> {
                match (w, base) {
                    (When::Never, _) => None,
                    (When::Rel(d), Some(b)) => Some((b + *d as i64).max(idle_from)),
                    (When::Rel(d), None) => Some(idle_from + (*d as i64).abs()),
                }
            };
            let t2 = at(second, d1, t_r1 + 1);
            let mut ops = vec![PeerOp::Send(0, first_head_len)];
            let mut now = 0i64;
            if upload.is_some() {
                if tail_ms > 0 {
                    ops.push(PeerOp::Sleep(tail_ms as u32));
                    now = tail_ms;
                }
                ops.push(PeerOp::Send(first_head_len, f));
            }
            let mut t_r2 = None;
            let mut t3 = None;
            if let Some(t2) = t2 {
                ops.push(PeerOp::Sleep((t2 - now) as u32));
                now = t2;
                ops.push(PeerOp::Send(f, f + l));
                // second handler answers at once
                t_r2 = Some(t2);
                let d2 = ka_ms.map(|k| exact_deadline(*accept_delay, t2, k));
                t3 = at(third, d2, t2 + 1);
                if let Some(t3) = t3 {
                    ops.push(PeerOp::Sleep((t3 - now) as u32));
                    ops.push(PeerOp::Send(f + l, f + 2 * l));
                }
            }
            ops.push(PeerOp::WaitClose(30_000));
            ops.push(PeerOp::Eof);
            let cfg = SrvCfg { ka: ka.clone(), accept_delay_ms: *accept_delay, ..Default::default() };
            let mut p0 = prog(*h_ms, ok_resp(3));
            if matches!(upload, Some((true, _))) {
                p0.read = ReadProg::DropNow;
            }
            let progs = vec![p0, prog(0, ok_resp(4)), prog(0, ok_resp(5))];
            let out = h1engine::run(Scenario::new(cfg, progs, input, ops));
            let v = Verdict::ok()
                .nt(ka_ms.is_some() && (matches!(second, When::Rel(d) if d.abs() <= 50) || matches!(third, When::Rel(d) if d.abs() <= 50)))
                .class_if(matches!(ka, KaCfg::Disabled), "ka-disabled")
                .class_if(matches!(ka, KaCfg::Os), "ka-os")
                .class_if(ka_ms.is_some(), "ka-timeout")
                .class_if(matches!(upload, Some((true, t)) if t as i64 > *h_ms as i64), "upload-dropped-tail-after-response")
                .class_if(matches!(upload, Some((false, _))), "upload-read")
                .class_if(matches!(second, When::Never), "no-second-request")
                .class_if(matches!(second, When::Rel(d) if (-3..=3).contains(d)), "second-within-3ms-of-deadline");
            let v = match common(v, &out) {
                Ok(v) => v,
                Err(v) => return v,
            };
            let parsed = httpwire::parse_responses(&out.out, &[false, false, false], out.closed());
            if let Some(e) = &parsed.error {
                return v.fail_with(format!("wire does not parse: {e}"));
            }
            let served = out.reqs.len();
            let end = out.end_at as i64;
            if ka_ms.is_some() && [Some(t_r1), t2, t3].iter().flatten().any(|t| on_tick(*accept_delay, *t)) {
                return v.class("armed-on-clock-tick-not-judged");
            }
            match ka {
                KaCfg::Disabled => {
                    // closes right after the first response, which says so
                    if !parsed.responses.first().is_some_and(|r| r.announces_close()) {
                        return v.fail_with("keep-alive disabled but the response does not announce close");
                    }
                    if end > t_r1 + EPS || matches!(out.end, ConnEnd::Stalled) {
                        return v.fail_with(format!("keep-alive disabled: response at {t_r1} ms but connection completed at {end} ms"));
                    }
                    // (requests sent after the close are of course not served)
                    if served > 1 && t2.is_some_and(|t| t > t_r1 + EPS) {
                        return v.fail_with("request served after the connection should have been closed");
                    }
                    v
                }
                KaCfg::Os => {
                    // no timer: every request is served; the connection ends with the peer
                    let expect = 1 + usize::from(t2.is_some()) + usize::from(t3.is_some());
                    if served != expect {
                        return v.fail_with(format!("keep-alive Os: {served} of {expect} requests served"));
                    }
                    if end < 30_000 {
                        return v.fail_with(format!("keep-alive Os: server closed an idle connection at {end} ms"));
                    }
                    v
                }
                KaCfg::Timeout(_) => {
                    let k = ka_ms.unwrap();
                    // walk the idle periods
                    let mut idle_from = t_r1;
                    let mut deadline = d1.unwrap();
                    let mut expect_served = 1usize;
                    let mut either = false;
                    for t in [t2, t3] {
                        match t {
                            Some(t) if t < deadline - EPS => {
                                expect_served += 1;
                                idle_from = t;
                                deadline = exact_deadline(*accept_delay, t, k);
                            }
                            Some(t) if t <= deadline + EPS => {
                                either = true;
                                break;
                            }
                            _ => break,
                        }
                    }
                    let _ = t_r2;
                    if either {
                        return v.class("request-races-deadline-either-outcome");
                    }
                    if served != expect_served {
                        return v.fail_with(format!(
                            "{served} requests served, expected {expect_served}: request times {:?}/{:?}, first response at {t_r1} ms, keep-alive {k} ms, exact deadline after the last served request {deadline} ms",
                            t2, t3
                        ));
                    }
                    // idle connection closed at the deadline, not before, not (much) after
                    if matches!(out.end, ConnEnd::Stalled) {
                        return v.fail_with("idle keep-alive connection was never closed");
                    }
                    // (a deadline that is already past when the timer is armed is due at once)
                    let deadline = deadline.max(idle_from);
                    if (end - deadline).abs() > EPS {
                        return v.fail_with(format!(
                            "idle since {idle_from} ms with keep-alive {k} ms (clock staleness {}): exact deadline {deadline} ms but the connection completed at {end} ms",
                            (*accept_delay as i64 + idle_from).rem_euclid(500)
                        ));
                    }
                    if end < idle_from + k - G - EPS || end > idle_from + k + EPS {
                        return v.fail_with(format!("closed at {end} ms outside [idle + ka - 500, idle + ka] = [{}, {}]", idle_from + k - G, idle_from + k));
                    }
                    v
                }
            }
        }

        Case::Shutdown { trigger, disc_ms, accept_delay, peer, never_reads, shutdown_blocks, bodiless } => {
            let d = *disc_ms as i64;
            let (input, progs, cfg, t_decide): (Vec<u8>, Vec<HandlerProg>, SrvCfg, i64) = match trigger {
                Trigger::KaExpiry => {
                    let cfg = SrvCfg { ka: KaCfg::Timeout(1000), disc_timeout_ms: *disc_ms, accept_delay_ms: *accept_delay, ..Default::default() };
                    (b"GET /a HTTP/1.1\r\n\r\n".to_vec(), vec![prog(0, ok_resp(3))], cfg, exact_deadline(*accept_delay, 0, 1000))
                }
                Trigger::Head408 => {
                    let cfg = SrvCfg { req_timeout_ms: 300, disc_timeout_ms: *disc_ms, accept_delay_ms: *accept_delay, ..Default::default() };
                    (b"GET /a HT".to_vec(), vec![], cfg, exact_deadline(*accept_delay, 0, 300).max(0))
                }
                Trigger::CloseResponse => {
                    let cfg = SrvCfg { disc_timeout_ms: *disc_ms, accept_delay_ms: *accept_delay, ..Default::default() };
                    (b"GET /a HTTP/1.1\r\nConnection: close\r\n\r\n".to_vec(), vec![prog(20, ok_resp(3))], cfg, 20)
                }
                Trigger::UnreadBody => {
                    let cfg = SrvCfg { disc_timeout_ms: *disc_ms, accept_delay_ms: *accept_delay, ..Default::default() };
                    let mut p = prog(20, ok_resp(3));
                    if *bodiless {
                        p.resp.body = BodyProg { kind: BodyKind::Unit, chunks: vec![], fail_at_end: false, seed: 0, style: 1 };
                    }
                    p.read = ReadProg::Hold;
                    // the body never arrives completely
                    (b"POST /a HTTP/1.1\r\nContent-Length: 1000\r\n\r\nabc".to_vec(), vec![p], cfg, 20)
                }
            };
            let mut ops = vec![PeerOp::Send(0, input.len())];
            match peer {
                PeerEnd::Silent => {
                    ops.push(PeerOp::WaitClose(60_000));
                    ops.push(PeerOp::Eof);
                }
                PeerEnd::EofAfter(ms) => {
                    ops.push(PeerOp::Sleep((t_decide + *ms as i64).max(0) as u32));
                    ops.push(PeerOp::Eof);
                }
            }
            let mut sc = Scenario::new(cfg, progs, input, ops);
            sc.shutdown_blocks = *shutdown_blocks;
            // A peer that stops reading *before* a response is flushed keeps the server in its
            // normal writing state (no write timeout is claimed by the property); the shutdown
            // has not started then; the same holds for an unflushable 408. "Never reads" is
            // therefore applied only where nothing needs flushing (keep-alive expiry).
            let never_reads = &(*never_reads && matches!(trigger, Trigger::KaExpiry));
            if *never_reads {
                // the peer stops reading at the moment of the decision: what is written afterwards
                // (408, nothing for the other triggers) cannot be flushed
                sc.w_ops = vec![WOp::Sleep((t_decide - 1).max(0) as u32), WOp::Credit(0)];
            }
            if on_tick(*accept_delay, 0) || on_tick(*accept_delay, 20) {
                return Verdict::ok().class("armed-on-clock-tick-not-judged");
            }
            let out = h1engine::run(sc);
            let obstructed = *shutdown_blocks;
            let v = Verdict::ok()
                .nt(d > 0 && obstructed)
                .class_if(d == 0, "disconnect-timeout-disabled")
                .class_if(*shutdown_blocks, "transport-shutdown-never-completes")
                .class_if(*never_reads, "peer-never-reads")
                .class_if(matches!(peer, PeerEnd::Silent), "peer-silent")
                .class_if(matches!(trigger, Trigger::KaExpiry), "trigger-keep-alive-expiry")
                .class_if(matches!(trigger, Trigger::Head408), "trigger-408")
                .class_if(matches!(trigger, Trigger::CloseResponse), "trigger-close-response")
                .class_if(matches!(trigger, Trigger::UnreadBody), "trigger-unread-body-linger")
                .class_if(matches!(trigger, Trigger::UnreadBody) && *bodiless, "early-response-without-body");
            let v = match common(v, &out) {
                Ok(v) => v,
                Err(v) => return v,
            };
            let end = out.end_at as i64;
            let stalled = matches!(out.end, ConnEnd::Stalled);
            if d > 0 {
                // linger (unread body) may itself take up to the disconnect timeout before the
                // shutdown proper starts
                let phases = if matches!(trigger, Trigger::UnreadBody) { 2 } else { 1 };
                let limit = t_decide + phases * d + EPS + 1;
                if stalled || end > limit {
                    return v.fail_with(format!(
                        "the server decided to end the connection at {t_decide} ms ({trigger:?}); with client_disconnect_timeout {d} ms it must be gone by {limit} ms, but the connection task {} (peer {peer:?}, never_reads={never_reads}, transport shutdown blocks={shutdown_blocks})",
                        if stalled { "never completed".to_string() } else { format!("completed at {end} ms") }
                    ));
                }
            } else if !obstructed {
                // no timeout configured: an unobstructed shutdown is immediate
                if stalled || end > t_decide + EPS + 1 {
                    return v.fail_with(format!(
                        "decision at {t_decide} ms ({trigger:?}), nothing obstructs the shutdown, yet the task {}",
                        if stalled { "never completed".to_string() } else { format!("completed at {end} ms") }
                    ));
                }
            }
            // a peer that half-closes while the server lingers (or waits in an unobstructed
            // shutdown) ends the wait at once: the task must not sleep on until the timer fires
            // (a half-close seen *before* lingering starts is not looked at again: the linger then
            // lasts its full time — slow, but bounded, and not claimed otherwise)
            if let PeerEnd::EofAfter(ms) = peer {
                let t_eof = (t_decide + *ms as i64).max(0);
                if *ms > 0 && !obstructed && !stalled && end > t_eof.max(t_decide) + EPS + 1 && matches!(trigger, Trigger::UnreadBody | Trigger::CloseResponse) {
                    return v.fail_with(format!(
                        "peer half-closed at {t_eof} ms while the server was ending the connection (decision at {t_decide} ms, {trigger:?}, disconnect timeout {d} ms) but the task completed only at {end} ms"
                    ));
                }
            }
            if end < t_decide - EPS && !matches!(peer, PeerEnd::EofAfter(_)) {
                return v.fail_with(format!("connection ended at {end} ms, before the decision point {t_decide} ms"));
            }
            v
        }

        Case::Drain { signal_ms, n, h_ms, body_ms, arrive_ms, disc_ms, ka, upload_gap_ms } => {
            let n = (*n as usize).clamp(1, 4);
            let gap_of = |i: usize| upload_gap_ms.get(i).copied().unwrap_or(0);
            let mut input = vec![];
            let mut ranges = vec![];
            for i in 0..n {
                let s = input.len();
                if gap_of(i) > 0 {
                    input.extend_from_slice(format!("POST /d{i} HTTP/1.1\r\nHost: x\r\nContent-Length: 200\r\n\r\n").as_bytes());
                    input.extend(std::iter::repeat_n(b'u', 200));
                } else {
                    input.extend_from_slice(format!("GET /d{i} HTTP/1.1\r\nHost: x\r\n\r\n").as_bytes());
                }
                ranges.push((s, input.len()));
            }
            let mut ops = vec![];
            let mut t_arrive = vec![];
            let mut now = 0u32;
            for i in 0..n {
                let gap = if i == 0 { 0 } else { arrive_ms[i] as u32 };
                if gap > 0 {
                    ops.push(PeerOp::Sleep(gap));
                    now += gap;
                }
                t_arrive.push(now as i64);
                if gap_of(i) > 0 {
                    // head + first half of the body now, the rest later
                    let cut = ranges[i].1 - 100;
                    ops.push(PeerOp::Send(ranges[i].0, cut));
                    ops.push(PeerOp::Sleep(gap_of(i) as u32));
                    now += gap_of(i) as u32;
                    ops.push(PeerOp::Send(cut, ranges[i].1));
                } else {
                    ops.push(PeerOp::Send(ranges[i].0, ranges[i].1));
                }
            }
            ops.push(PeerOp::WaitClose(30_000));
            ops.push(PeerOp::Eof);
            let progs: Vec<HandlerProg> = (0..n)
                .map(|i| {
                    let resp = if body_ms[i] > 0 {
                        RespProg {
                            body: BodyProg {
                                kind: BodyKind::Stream,
                                chunks: vec![
                                    ChunkProg { len: 10, pending: 0, delay_ms: 0 },
                                    ChunkProg { len: 10, pending: 0, delay_ms: body_ms[i] },
                                ],
                                fail_at_end: false,
                                seed: i as u64,
                                style: 1,
                            },
                            ..ok_resp(0)
                        }
                    } else {
                        ok_resp(4)
                    };
                    prog(h_ms[i], resp)
                })
                .collect();
            let cfg = SrvCfg { shutdown_signal_ms: Some(*signal_ms as u32), disc_timeout_ms: *disc_ms, ka: ka.clone(), ..Default::default() };
            let out = h1engine::run(Scenario::new(cfg, progs, input, ops));
            let tg = *signal_ms as i64;
            let in_flight_at_signal = out.reqs.iter().any(|r| (r.t_dispatch as i64) < tg && r.t_return.is_none_or(|t| t as i64 >= tg));
            let queued_at_signal = (0..n).filter(|&i| t_arrive[i] < tg).count() > out.reqs.iter().filter(|r| (r.t_dispatch as i64) < tg).count();
            let v = Verdict::ok()
                .nt(in_flight_at_signal && queued_at_signal)
                .class_if(in_flight_at_signal, "handler-running-at-signal")
                .class_if(queued_at_signal, "request-queued-at-signal")
                .class_if(
                    out.reqs.iter().enumerate().any(|(i, r)| gap_of(i) > 0 && (r.t_dispatch as i64) < tg && t_arrive[i] + gap_of(i) as i64 > tg),
                    "upload-in-progress-at-signal",
                )
                .class_if(t_arrive.iter().any(|t| *t > tg), "request-arrives-after-signal")
                .class_if(out.reqs.is_empty(), "signal-before-any-dispatch");
            let v = match common(v, &out) {
                Ok(v) => v,
                Err(v) => return v,
            };
            let parsed = httpwire::parse_responses(&out.out, &vec![false; n + 1], out.closed());
            if let Some(e) = &parsed.error {
                return v.fail_with(format!("wire does not parse: {e}"));
            }
            // (1) nothing is dispatched after the signal
            for r in &out.reqs {
                if r.t_dispatch as i64 > tg + 1 {
                    return v.fail_with(format!(
                        "request {} dispatched at {} ms, after the graceful-shutdown signal at {tg} ms",
                        r.target, r.t_dispatch
                    ));
                }
            }
            // (2) every dispatched request is answered completely
            let complete = parsed.responses.iter().filter(|r| r.complete).count();
            if complete != out.reqs.len() {
                return v.fail_with(format!(
                    "{} requests were dispatched (signal at {tg} ms) but {complete} complete responses were written",
                    out.reqs.len()
                ));
            }
            // (3) a response whose head was written after the signal announces close, and is the last
            for (i, r) in parsed.responses.iter().enumerate() {
                let t_head = out.time_of_out_offset(r.start).unwrap_or(0) as i64;
                if t_head > tg + 1 {
                    if !r.announces_close() {
                        return v.fail_with(format!(
                            "response {i} was written at {t_head} ms, after the signal ({tg} ms), without `connection: close`"
                        ));
                    }
                    if i + 1 != parsed.responses.len() {
                        return v.fail_with(format!("response {i} (after the signal) is followed by another response"));
                    }
                }
            }
            // (4) the connection completes: once the last in-flight work is done
            if matches!(out.end, ConnEnd::Stalled) {
                return v.fail_with(format!("connection never completed after the signal at {tg} ms"));
            }
            // (expected times from the case, not observed ones: a handler that is only released by
            // the peer's much later half-close must not move the goal)
            let mut work_end = tg;
            for (i, r) in out.reqs.iter().enumerate() {
                let upload_done = if gap_of(i) > 0 { t_arrive[i] + gap_of(i) as i64 } else { 0 };
                let ret = (r.t_dispatch as i64 + h_ms[i] as i64).max(upload_done);
                work_end = work_end.max(ret + body_ms[i] as i64);
                // an upload in progress at the signal still reaches its handler completely
                if gap_of(i) > 0 && !(matches!(r.end, h1engine::BodyEnd::Clean) && r.body_len == 200) {
                    return v.fail_with(format!(
                        "request {} was dispatched at {} ms (signal at {tg} ms) but its handler saw the body end as {:?} after {} of 200 bytes",
                        r.target, r.t_dispatch, r.end, r.body_len
                    ));
                }
            }
            let end = out.end_at as i64;
            if end > work_end + *disc_ms as i64 + EPS + 2 {
                return v.fail_with(format!(
                    "signal at {tg} ms, last in-flight work finished at {work_end} ms, but the connection completed at {end} ms"
                ));
            }
            v
        }

        Case::DrainEarly { chunked, drop_body, h_ms, gap_ms, mode, glue, disc_ms } => {
            let mut input = vec![];
            let cut;
            if *chunked {
                input.extend_from_slice(b"POST /e0 HTTP/1.1\r\nHost: x\r\nTransfer-Encoding: chunked\r\n\r\n64\r\n");
                input.extend(std::iter::repeat_n(b'u', 100));
                input.extend_from_slice(b"\r\n");
                cut = input.len();
                input.extend_from_slice(b"64\r\n");
                input.extend(std::iter::repeat_n(b'u', 100));
                input.extend_from_slice(b"\r\n0\r\n\r\n");
            } else {
                input.extend_from_slice(b"POST /e0 HTTP/1.1\r\nHost: x\r\nContent-Length: 200\r\n\r\n");
                input.extend(std::iter::repeat_n(b'u', 100));
                cut = input.len();
                input.extend(std::iter::repeat_n(b'u', 100));
            }
            let tail_end = input.len();
            input.extend_from_slice(b"GET /late HTTP/1.1\r\nHost: x\r\n\r\n");
            let mut ops = vec![PeerOp::Send(0, cut), PeerOp::Sleep(*gap_ms as u32)];
            if *glue {
                ops.push(PeerOp::Send(cut, input.len()));
            } else {
                ops.push(PeerOp::Send(cut, tail_end));
                ops.push(PeerOp::Send(tail_end, input.len()));
            }
            ops.push(PeerOp::WaitClose(30_000));
            ops.push(PeerOp::Eof);
            let mut p0 = prog(*h_ms, ok_resp(4));
            if *drop_body {
                p0.read = ReadProg::DropNow;
            }
            let progs = vec![p0, prog(0, ok_resp(4))];
            let t_tail = *gap_ms as u32;
            let (sig_ms, sig_at) = match *mode % 4 {
                0 => (None, Some(cut as u32)),
                1 => (Some(t_tail), None),
                2 => (Some(t_tail - 1), None),
                _ => (Some(t_tail / 2), None),
            };
            let cfg = SrvCfg { shutdown_signal_ms: sig_ms, shutdown_signal_at_input: sig_at, disc_timeout_ms: *disc_ms, ..Default::default() };
            let out = h1engine::run(Scenario::new(cfg, progs, input, ops));
            let v = Verdict::ok()
                .nt(*mode % 4 != 1)
                .class_if(*mode % 4 == 0, "signal-and-bytes-in-one-poll")
                .class_if(*drop_body, "early-response-body-dropped")
                .class_if(*chunked, "chunked-upload");
            let v = match common(v, &out) {
                Ok(v) => v,
                Err(v) => return v,
            };
            let parsed = httpwire::parse_responses(&out.out, &[false; 3], out.closed());
            if let Some(e) = &parsed.error {
                return v.fail_with(format!("wire does not parse: {e}"));
            }
            if *mode % 4 != 1 {
                if let Some(r) = out.reqs.iter().find(|r| r.target.contains("late")) {
                    return v.fail_with(format!(
                        "request {} was released by the peer after the graceful-shutdown signal had fired (mode {}) but was started at {} ms",
                        r.target, mode % 4, r.t_dispatch
                    ));
                }
            }
            let complete = parsed.responses.iter().filter(|r| r.complete).count();
            if complete != out.reqs.len() {
                return v.fail_with(format!("{} requests were dispatched but {complete} complete responses were written", out.reqs.len()));
            }
            if out.reqs.is_empty() {
                return v.fail_with("the upload request, complete-headed long before the signal, was never dispatched".to_string());
            }
            if matches!(out.end, ConnEnd::Stalled) {
                return v.fail_with("connection never completed after the signal".to_string());
            }
            v
        }
    }
}

pub fn run(cfg: &RunCfg) -> Report {
    let mut rep = Report::new("C06");
    rep.rule = "cases = (head) client_request_timeout 0/300/3000/1..2000 ms x clock staleness 0..499 ms x first head in 1-4 pieces completing at the exact deadline -3000..+1500 ms (dense at +-3 ms) or never; (keep-alive) Disabled/Os/Timeout 1..5000 ms x handler delay x second and third request arriving at the exact idle deadline -3000..+1500 ms or never, the first request optionally a chunked upload (read or dropped by the handler) whose terminating chunk arrives 0-900 ms after its head; (shutdown) decision by keep-alive expiry / 408 / Connection: close response / response (3-byte or empty body) with unread request body (linger) x client_disconnect_timeout 0/500/2000/1..3000 ms x peer silent or half-closing late x peer that never reads x transport whose shutdown never completes; (drain) graceful-shutdown signal at 0..900 ms against 1-4 requests with handler delays, streaming bodies and arrival gaps; (drain-early) signal while a 200-byte upload (Content-Length or chunked; read or dropped by a handler answering after 0..60 ms) is half received, the rest of the upload and a later request released together (one or two segments) after the signal: in the same scheduler turn (signal fired by the peer just before the bytes), 1 ms later, or half a gap later; or at the same instant by an independent timer (no claim on the later request); \
                non-trivial = an event within 50 ms of a deadline or a head that never completes, an obstructed shutdown with a timeout configured, or a signal fired while a handler runs with a request queued; distinct by hash of the case"
        .into();
    rep.assumptions = vec![
        "virtual time: tokio paused clock, 1 ms resolution; eps = 3 ms".into(),
        "exact deadlines: the date service refreshes its cached clock every 500 ms from service creation, so a timer armed at t (relative to accept) with timeout X fires at t - ((accept_delay + t) mod 500) + X; the sound envelope [X - 500, X] is asserted as well".into(),
        "only the first request head is governed by client_request_timeout".into(),
        "shutdown bound: decision time + client_disconnect_timeout (+ the same again for the linger phase after an unread body); with the timeout disabled only unobstructed shutdowns are required to be immediate".into(),
    ];
    runner::replay_pinned(&mut rep, cfg, &replay);
    runner::replay_regress(&mut rep, cfg, &replay);
    explore(&mut rep, cfg, "head", cfg.cases(300_000, 6_000_000), || case_strategy(0), |c| run_case(cfg, c));
    explore(&mut rep, cfg, "keep-alive", cfg.cases(300_000, 6_000_000), || case_strategy(1), |c| run_case(cfg, c));
    explore(&mut rep, cfg, "shutdown", cfg.cases(100_000, 2_000_000), || case_strategy(2), |c| run_case(cfg, c));
    explore(&mut rep, cfg, "drain", cfg.cases(300_000, 6_000_000), || case_strategy(3), |c| run_case(cfg, c));
    explore(&mut rep, cfg, "drain-early", cfg.cases(20_000, 200_000), || case_strategy(4), |c| run_case(cfg, c));
    rep
}

pub fn replay(cfg: &RunCfg, _phase: &str, case: &serde_json::Value) -> Result<Verdict, String> {
    let c: Case = runner::from_json(case)?;
    Ok(run_case(cfg, &c))
}
