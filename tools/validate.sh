#!/bin/bash
# validate MANIFEST.json and every evidence file against the given schemas
python3-vt - <<'PY'
import json,jsonschema,glob
jsonschema.validate(json.load(open('/verif/MANIFEST.json')),json.load(open('/root/.vp/MANIFEST.schema.json')));print('manifest ok')
for f in sorted(glob.glob('/verif/evidence/*.json')):
    jsonschema.validate(json.load(open(f)),json.load(open('/root/.vp/EVIDENCE.schema.json')));print(f,'ok')
PY
