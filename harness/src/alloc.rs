//! Counting global allocator: per-thread live bytes and high-water mark.
//!
//! Every case of the connection-level checks runs entirely on its worker thread (current-thread
//! runtime), so a thread-local counter measures what that case's code allocated. Used as a second
//! signal by C05 and as the per-iteration allocation bound by C19.

use std::{
    alloc::{GlobalAlloc, Layout, System},
    cell::Cell,
};

pub struct Counting;

thread_local! {
    static LIVE: Cell<isize> = const { Cell::new(0) };
    static PEAK: Cell<isize> = const { Cell::new(0) };
    static TOTAL: Cell<u64> = const { Cell::new(0) };
}

#[inline]
fn add(n: isize) {
    let _ = LIVE.try_with(|l| {
        let v = l.get() + n;
        l.set(v);
        if n > 0 {
            let _ = PEAK.try_with(|p| {
                if v > p.get() {
                    p.set(v);
                }
            });
            let _ = TOTAL.try_with(|t| t.set(t.get() + n as u64));
        }
    });
}

unsafe impl GlobalAlloc for Counting {
    unsafe fn alloc(&self, layout: Layout) -> *mut u8 {
        let p = System.alloc(layout);
        if !p.is_null() {
            add(layout.size() as isize);
        }
        p
    }
    unsafe fn dealloc(&self, ptr: *mut u8, layout: Layout) {
        System.dealloc(ptr, layout);
        add(-(layout.size() as isize));
    }
    unsafe fn alloc_zeroed(&self, layout: Layout) -> *mut u8 {
        let p = System.alloc_zeroed(layout);
        if !p.is_null() {
            add(layout.size() as isize);
        }
        p
    }
    unsafe fn realloc(&self, ptr: *mut u8, layout: Layout, new_size: usize) -> *mut u8 {
        let p = System.realloc(ptr, layout, new_size);
        if !p.is_null() {
            add(new_size as isize - layout.size() as isize);
        }
        p
    }
}

/// Start a measurement on this thread: the high-water mark is reset to the current live size.
pub fn mark() -> isize {
    let live = LIVE.with(|l| l.get());
    PEAK.with(|p| p.set(live));
    live
}

/// High-water mark of live bytes on this thread since `mark()`, relative to the mark.
pub fn peak_since(mark: isize) -> isize {
    PEAK.with(|p| p.get()) - mark
}
