//! vp_core — property-based testing / fuzzing machinery for the actix-web properties C01..C19.
//! See /verif/DESIGN.md.

pub mod alloc;
pub mod appengine;
pub mod gen;
pub mod h1engine;
pub mod httpwire;
pub mod props;
pub mod simnet;
pub mod streams;
pub mod runner;
pub mod util;

use runner::{Report, RunCfg, Verdict};

#[global_allocator]
static GLOBAL: alloc::Counting = alloc::Counting;

pub struct PropEntry {
    pub id: &'static str,
    pub run: fn(&RunCfg) -> Report,
    pub replay: fn(&RunCfg, &str, &serde_json::Value) -> Result<Verdict, String>,
}

pub fn registry() -> Vec<PropEntry> {
    props::registry()
}
