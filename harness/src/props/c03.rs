//! C03 — HTTP/1 reuse discipline: close means close; unread bodies are never reparsed.
//!
//! Pipelines whose request bodies look like requests, handlers that read none / part / all of the
//! body and respond early or late, and generated arrival orders of the remaining body bytes and of
//! the following requests (already buffered / after the previous response was written). The wire
//! is decoded with the independent parser; the first response that announces the end of the
//! connection must really be the last thing written and the last request dispatched.

use proptest::prelude::*;
use serde::{Deserialize, Serialize};

use super::c01::{self, Bad};
use crate::{
    gen::{self, BodyOpts, ReqOpts},
    h1engine::{self, BodyEnd, BodyKind, ConnEnd, HandlerProg, KaCfg, ReadProg, Scenario, SrvCfg},
    httpwire::{self, Framing, ReqSpec},
    runner::{self, explore, Report, RunCfg, Verdict},
    simnet::PeerOp,
    util,
};

#[derive(Debug, Clone, Serialize, Deserialize, PartialEq, Eq)]
pub enum Arrival {
    /// sent right behind the previous request (available to the decoder at once)
    Pipelined,
    /// sent after a delay (ms)
    Delay(u16),
    /// sent only after the previous request's response is completely on the wire, plus a delay
    AfterResponse(u16),
}

#[derive(Debug, Clone, Serialize, Deserialize)]
pub struct Case {
    pub ka: KaCfg,
    pub half_closed: bool,
    pub disc_timeout_ms: u32,
    pub reqs: Vec<ReqSpec>,
    pub progs: Vec<HandlerProg>,
    pub arrival: Vec<Arrival>,
    /// per request: fraction (of 65536) of the body sent with the head; the rest follows per
    /// `rest_arrival`
    pub body_split: Vec<u16>,
    pub rest_arrival: Vec<Arrival>,
    pub bad: Option<Bad>,
    pub bad_arrival: Arrival,
    pub eof_after: bool,
}

const BODY_OPTS: BodyOpts = BodyOpts {
    max_chunk: 3000,
    allow_empty_chunks: false,
    allow_fail: false,
    allow_mismatch: false,
    allow_echo: true,
};

fn arrival() -> impl Strategy<Value = Arrival> {
    prop_oneof![
        4 => Just(Arrival::Pipelined),
        2 => (1u16..40).prop_map(Arrival::Delay),
        4 => prop_oneof![3 => Just(0u16), 1 => 1u16..30].prop_map(Arrival::AfterResponse),
    ]
}

fn case_strategy() -> impl Strategy<Value = Case> {
    (
        prop_oneof![5 => Just(KaCfg::Timeout(5000)), 1 => Just(KaCfg::Os), 2 => Just(KaCfg::Disabled)],
        proptest::bool::weighted(0.8),
        prop_oneof![2 => Just(0u32), 1 => Just(1000u32), 1 => Just(200u32)],
        proptest::collection::vec(
            (
                gen::req_spec(ReqOpts {
                    with_head: true,
                    allow_close: true,
                    allow_http10: true,
                    allow_expect: false,
                    max_body: 70_000,
                }),
                gen::handler_prog(BODY_OPTS, false),
                arrival(),
                any::<u16>(),
                arrival(),
            ),
            1..6,
        ),
        proptest::option::weighted(0.3, c01::bad_strategy()),
        arrival(),
        proptest::bool::weighted(0.4),
    )
        .prop_map(|(ka, half_closed, disc_timeout_ms, items, bad, bad_arrival, eof_after)| {
            let mut c = Case {
                ka,
                half_closed,
                disc_timeout_ms,
                reqs: vec![],
                progs: vec![],
                arrival: vec![],
                body_split: vec![],
                rest_arrival: vec![],
                bad,
                bad_arrival,
                eof_after,
            };
            for (mut r, mut p, a, split, ra) in items {
                // bodies that look like requests
                if r.body_style != 0 {
                    r.body_style = 2;
                }
                // keep handler timing modest so that keep-alive (5 s) never interferes
                p.pre_delay_ms = p.pre_delay_ms.min(200);
                p.post_delay_ms = p.post_delay_ms.min(200);
                for ch in p.resp.body.chunks.iter_mut() {
                    ch.delay_ms = ch.delay_ms.min(50);
                }
                // an error status produced by a handler would be indistinguishable from the
                // server's own parse-error responses
                if matches!(p.resp.status, 400 | 404 | 500) {
                    p.resp.status = 200;
                }
                p.resp.user_cl = None;
                p.resp.user_te = false;
                p.resp.no_chunking = false;
                if matches!(p.resp.status, 304) {
                    p.resp.status = 204;
                }
                // a BodySize::None body is only meaningful with a bodiless status (handler contract)
                if matches!(p.resp.body.kind, BodyKind::Custom(h1engine::CustomHint::None)) && p.resp.status != 204 {
                    p.resp.body.kind = BodyKind::Unit;
                }
                c.reqs.push(r);
                c.progs.push(p);
                c.arrival.push(a);
                c.body_split.push(split);
                c.rest_arrival.push(ra);
            }
            // truncation classes end the stream; they cannot be followed by a wait-for-response
            if matches!(c.bad, Some(Bad::TruncHead(_) | Bad::TruncLenBody(_) | Bad::TruncChunked(_))) {
                c.bad = None;
            }
            c
        })
}

struct Sent {
    /// [start, end) of request k in the input; k == reqs.len() is the malformed message,
    /// k == reqs.len()+1 the attack suffix
    ranges: Vec<(usize, usize)>,
}

fn build(case: &Case, halfclose_listed: bool) -> (Scenario, Sent, Option<c01::BadRender>, Option<String>) {
    let rendered = httpwire::render_pipeline(&case.reqs);
    let mut input = rendered.bytes.clone();
    let mut ranges: Vec<(usize, usize)> = rendered.reqs.iter().map(|r| (r.start, r.end)).collect();
    let n = case.reqs.len();
    let bad = case.bad.as_ref().map(|b| c01::render_bad(b, n));
    let mut attack = None;
    if let Some(b) = &bad {
        let s = input.len();
        input.extend_from_slice(&b.bytes);
        ranges.push((s, input.len()));
        let t = format!("/smuggled-{n}");
        let s2 = input.len();
        input.extend_from_slice(format!("GET {t} HTTP/1.1\r\nHost: evil\r\n\r\n").as_bytes());
        ranges.push((s2, input.len()));
        attack = Some(t);
    }
    let mut ops: Vec<PeerOp> = vec![];
    let wait = |ops: &mut Vec<PeerOp>, a: &Arrival, k: usize| match a {
        Arrival::Pipelined => {}
        Arrival::Delay(ms) => ops.push(PeerOp::Sleep(*ms as u32)),
        Arrival::AfterResponse(ms) => {
            ops.push(PeerOp::WaitResps(k, 4000));
            if *ms > 0 {
                ops.push(PeerOp::Sleep(*ms as u32));
            } else {
                ops.push(PeerOp::Yield);
            }
        }
    };
    for (k, rr) in rendered.reqs.iter().enumerate() {
        if k > 0 {
            wait(&mut ops, &case.arrival[k], k);
        }
        let body_len = rr.end - rr.head_end;
        let with_head = util::pick_idx(case.body_split[k], body_len + 1);
        let cut = rr.head_end + with_head;
        if body_len > 0 && cut < rr.end && !matches!(case.rest_arrival[k], Arrival::Pipelined) {
            ops.push(PeerOp::Send(rr.start, cut));
            // the rest of the body: after a delay, or after this request's own response
            wait(&mut ops, &case.rest_arrival[k], k + 1);
            ops.push(PeerOp::Send(cut, rr.end));
        } else {
            ops.push(PeerOp::Send(rr.start, rr.end));
        }
    }
    if bad.is_some() {
        wait(&mut ops, &case.bad_arrival, n);
        ops.push(PeerOp::Send(ranges[n].0, ranges[n].1));
        // the attack suffix arrives after the error response (or right away)
        wait(&mut ops, &case.arrival.first().cloned().unwrap_or(Arrival::Pipelined), n + 1);
        ops.push(PeerOp::Send(ranges[n + 1].0, ranges[n + 1].1));
    }
    let big = case.reqs.iter().any(|r| r.body_len() >= 32_768);
    if case.eof_after && !(halfclose_listed && big) {
        ops.push(PeerOp::Eof);
    } else {
        ops.push(PeerOp::WaitClose(20_000));
        ops.push(PeerOp::Eof);
    }
    let cfg = SrvCfg {
        ka: case.ka.clone(),
        half_closed: case.half_closed,
        disc_timeout_ms: case.disc_timeout_ms,
        ..Default::default()
    };
    let mut sc = Scenario::new(cfg, case.progs.clone(), input, ops);
    let mut ih: Vec<bool> = case.reqs.iter().map(|r| r.is_head()).collect();
    ih.extend([false, false, false]);
    sc.is_head = ih;
    (sc, Sent { ranges }, bad, attack)
}

/// First time any byte of input range [a, b) was released by the peer.
fn first_sent(send_log: &[(u64, usize, usize)], a: usize, b: usize) -> Option<u64> {
    send_log
        .iter()
        .filter(|(_, from, to)| *from < b && *to > a)
        .map(|(t, _, _)| *t)
        .min()
}

pub fn run_case(cfg: &RunCfg, case: &Case) -> Verdict {
    let strict = cfg.strict;
    let halfclose = !strict && cfg.kf.active("C01", "half-close-discards-buffered-body");
    let p4_listed = !strict && cfg.kf.active("C03", "pipelined-requests-served-after-close");
    let drain_listed = !strict && cfg.kf.active("C03", "close-then-drain-then-serve");
    let n = case.reqs.len();
    let (sc, sent, bad, attack) = build(case, halfclose);
    let out = h1engine::run(sc);
    let mut v = Verdict::ok();

    if let ConnEnd::Panicked(p) = &out.end {
        return v.fail_with(format!("panic in connection task: {p}"));
    }

    // ---- (A) everything dispatched is the stream's own request list, in order, exactly framed
    let expected: Vec<httpwire::ExpectedReq> = case.reqs.iter().map(httpwire::expected).collect();
    for (k, got) in out.reqs.iter().enumerate() {
        if k < n {
            let e = &expected[k];
            if got.method != e.method || got.target != e.target || got.version != e.version || got.headers != e.headers {
                return v.fail_with(format!(
                    "dispatched request {k} is {} {} (headers {:?}) but the stream's request {k} is {} {}: bytes of an earlier body or of a closed exchange were interpreted as a request",
                    got.method, got.target, got.headers, e.method, e.target
                ));
            }
            if !e.body.starts_with(&got.body) {
                return v.fail_with(format!(
                    "request {k}: delivered body bytes {} are not a prefix of the body sent",
                    util::show_bytes(&got.body, 40)
                ));
            }
            if matches!(got.end, BodyEnd::Clean) && got.body != e.body {
                return v.fail_with(format!(
                    "request {k}: body ended cleanly after {} of {} bytes",
                    got.body.len(),
                    e.body.len()
                ));
            }
        } else if k == n {
            match (&bad, &case.bad) {
                (Some(b), Some(_)) if b.head_ok.as_ref().is_some_and(|h| h.method == got.method && h.target == got.target) => {
                    if matches!(got.end, BodyEnd::Clean) && !b.lenient {
                        return v.fail_with(format!("malformed body {:?} ended cleanly", case.bad));
                    }
                }
                _ => {
                    return v.fail_with(format!(
                        "dispatched {} {} which is not a request of the stream (request list has {n} entries, malformed tail {:?})",
                        got.method, got.target, case.bad
                    ))
                }
            }
        } else {
            let lenient_ok = bad.as_ref().is_some_and(|b| b.lenient)
                && k == n + 1
                && attack.as_deref() == Some(got.target.as_str());
            if !lenient_ok {
                return v.fail_with(format!(
                    "dispatched {} {} after the malformed message {:?}",
                    got.method, got.target, case.bad
                ));
            }
        }
    }

    // ---- (B) the wire
    let mut is_head: Vec<bool> = case.reqs.iter().map(|r| r.is_head()).collect();
    is_head.extend([false, false, false]);
    let parsed = httpwire::parse_responses(&out.out, &is_head, out.closed());
    let resps = &parsed.responses;
    // position of the first response that ends the connection
    let mut closing: Option<(usize, &'static str)> = None;
    for (i, r) in resps.iter().enumerate() {
        if !r.complete {
            break;
        }
        let handler_made = i < n && out.reqs.get(i).is_some_and(|q| q.t_return.is_some());
        if i >= out.reqs.len() || (!handler_made && matches!(r.status, 400 | 431 | 408 | 413 | 500)) {
            // a response without a handler behind it: the server's own error response
            if r.status / 100 == 4 || r.status == 500 {
                closing = Some((i, "server error response"));
                break;
            }
        }
        if r.announces_close() {
            closing = Some((i, "announces close"));
            break;
        }
    }
    // unread & undrainable body: the remaining body bytes were sent only after the response
    let mut unread_at: Option<usize> = None;
    for k in 0..n.min(resps.len()) {
        let r = &case.reqs[k];
        let p = &case.progs[k];
        let body_len = r.body_len();
        if body_len == 0 || !resps[k].complete {
            continue;
        }
        let reads_all = matches!(p.read, ReadProg::All) && !p.fail && !matches!(p.resp.body.kind, BodyKind::Echo);
        if reads_all {
            continue;
        }
        let (a, b) = sent.ranges[k];
        // last body byte released after the response was complete?
        let t_resp_done = out.time_of_out_offset(resps[k].end.saturating_sub(1));
        let last_piece = out.send_log.iter().filter(|(_, from, to)| *from < b && *to > a).map(|(t, _, _)| *t).max();
        // a chunked body whose payload object was dropped (every non-echo handler drops it when it
        // returns) may be drained by the server to its exact end
        // (an echo handler that fails drops the payload as well: the body is never echoed)
        let drainable = matches!(r.framing, Framing::Chunked { .. }) && (p.fail || !matches!(p.resp.body.kind, BodyKind::Echo));
        if let (Some(td), Some(tl)) = (t_resp_done, last_piece) {
            if tl > td && !drainable {
                unread_at = Some(k);
                break;
            }
        }
    }
    if let Some(k) = unread_at {
        match closing {
            Some((c, _)) if c <= k => {}
            _ => {
                // the response did not announce close: then nothing may follow it anyway
                closing = Some((k, "response sent while its request body was unread and undrainable"));
            }
        }
    }

    let nt_unread = (0..n).any(|k| {
        case.reqs[k].body_len() > 0
            && !(matches!(case.progs[k].read, ReadProg::All))
            && (k + 1 < n || case.bad.is_some())
    });
    let nt_close = closing.is_some_and(|(c, _)| c + 1 < n + usize::from(case.bad.is_some()) * 2);
    v = v
        .nt(nt_unread || nt_close)
        .class_if(closing.is_some(), "has-closing-response")
        .class_if(unread_at.is_some(), "unread-undrainable-body")
        .class_if(nt_unread, "handler-leaves-body-unread")
        .class_if(case.bad.is_some(), "malformed-tail")
        .class_if(case.disc_timeout_ms > 0, "disconnect-timeout-set")
        .class_if(!case.half_closed, "no-half-close")
        .class_if(case.ka == KaCfg::Disabled, "ka-disabled")
        .class_if(
            case.arrival.iter().any(|a| matches!(a, Arrival::AfterResponse(_))),
            "arrival-after-response",
        );

    if let Some(e) = &parsed.error {
        // a stream that does not parse: only a violation of *this* property if it happens at or
        // after a closing response (something was written after it); framing itself is C02's
        if let Some((c, why)) = closing {
            if resps.len() > c {
                return v.fail_with(format!(
                    "bytes follow response {c} ({why}) on the wire and do not even parse: {e}"
                ));
            }
        }
        return v.class("unparseable-not-judged-here");
    }

    // listed finding "close-then-drain-then-serve": request c had a chunked body that its handler
    // dropped unread and whose remaining bytes arrived only after response c was complete; the
    // server drains that body even though response c announced close, and then goes on decoding
    let drained_after = |c: usize| -> bool {
        let (Some(r), Some(p), Some(resp)) = (case.reqs.get(c), case.progs.get(c), resps.get(c)) else {
            return false;
        };
        let chunked_dropped = matches!(r.framing, Framing::Chunked { .. })
            && (p.fail || !matches!(p.resp.body.kind, BodyKind::Echo))
            && !(matches!(p.read, ReadProg::All) && !p.fail);
        let (a, b) = sent.ranges[c];
        let td = out.time_of_out_offset(resp.end.saturating_sub(1));
        let tl = out.send_log.iter().filter(|(_, from, to)| *from < b && *to > a).map(|(t, _, _)| *t).max();
        chunked_dropped && matches!((td, tl), (Some(td), Some(tl)) if tl > td)
    };
    if let Some((c, why)) = closing {
        let r = &resps[c];
        // the response is finished when its last byte is on the wire *and* the dispatcher is done
        // with its body (a HEAD/204 response's body is still polled to its end although nothing
        // of it is written)
        let t_done = out
            .time_of_out_offset(r.end.saturating_sub(1))
            .unwrap_or(0)
            .max(out.resps.get(c).and_then(|l| l.dropped_at).unwrap_or(0));
        // (1) nothing follows it on the wire
        if resps.len() > c + 1 || out.out.len() > r.end {
            // listed finding: requests that were already sent (available to the decoder) before
            // the closing response was complete are still served
            let next_sent = sent
                .ranges
                .get(c + 1)
                .and_then(|(a, b)| first_sent(&out.send_log, *a, *b));
            let early = next_sent.is_some_and(|t| t <= t_done);
            if early && p4_listed {
                v = v.kf_skip("pipelined-requests-served-after-close");
                return v;
            }
            if !early && drain_listed && drained_after(c) {
                v = v.kf_skip("close-then-drain-then-serve");
                return v;
            }
            return v.fail_with(format!(
                "response {c} ({why}, status {}) is followed by {} more bytes on the wire ({} responses in total); next request first sent at {:?} ms, closing response complete at {t_done} ms",
                r.status,
                out.out.len() - r.end,
                resps.len(),
                next_sent
            ));
        }
        // (2) nothing is dispatched after it
        if let Some(q) = out.reqs.get(c + 1) {
            let next_sent = sent
                .ranges
                .get(c + 1)
                .and_then(|(a, b)| first_sent(&out.send_log, *a, *b));
            let early = next_sent.is_some_and(|t| t <= t_done);
            if early && p4_listed {
                v = v.kf_skip("pipelined-requests-served-after-close");
                return v;
            }
            if !early && drain_listed && drained_after(c) {
                v = v.kf_skip("close-then-drain-then-serve");
                return v;
            }
            return v.fail_with(format!(
                "request {} ({} {}) was dispatched although response {c} ({why}) ended the connection",
                c + 1,
                q.method,
                q.target
            ));
        }
        // (3) the connection really ends, within the disconnect timeout
        match out.end {
            ConnEnd::Stalled => {
                return v.fail_with(format!(
                    "response {c} ({why}) ended the exchange but the connection never closed"
                ))
            }
            _ => {
                let limit = t_done + case.disc_timeout_ms as u64 + 600;
                // handler/body programs of the closing response itself may still be running
                if let Some(tc) = out.close_time() {
                    if case.disc_timeout_ms > 0 && tc > limit && !case.eof_after {
                        return v.fail_with(format!(
                            "connection closed at {tc} ms, later than closing response ({t_done} ms) + disconnect timeout {} ms",
                            case.disc_timeout_ms
                        ));
                    }
                } else {
                    return v.fail_with(format!("response {c} ({why}) was written but the socket was never shut down or dropped"));
                }
            }
        }
    }
    // a malformed tail must have produced a closing response (when it was reached at all)
    if bad.is_some() && closing.is_none() && !bad.as_ref().unwrap().lenient {
        let reached = first_sent(&out.send_log, sent.ranges[n].0, sent.ranges[n].1).is_some();
        if reached && out.closed() && resps.len() >= n && !matches!(out.end, ConnEnd::Stalled) {
            // the connection ended without an error response; whether a 4xx must be written is
            // C01's claim, not this property's — nothing was written or dispatched afterwards
            v = v.class("malformed-tail-closed-without-response");
        }
    }
    if matches!(out.end, ConnEnd::Stalled) {
        v = v.class("stalled-not-judged-here");
    }
    v
}

pub fn run(cfg: &RunCfg) -> Report {
    let mut rep = Report::new("C03");
    rep.rule = "cases = pipeline of 1-5 requests whose bodies look like requests x handlers that read none/part/all of the body, drop it, echo it, respond early or late x keep-alive off/os/timeout x half-close allowed or not x disconnect timeout 0/200/1000 ms x arrival class of each following request and of each remaining body part (already pipelined / after a delay / only after the previous response is completely on the wire) x optional malformed tail with attack suffix; \
                non-trivial = a request with a body its handler does not fully read is followed by more input, or a connection-ending response has further input pending; distinct by hash of the case"
        .into();
    rep.assumptions = vec![
        "a response 'ends the connection' if it carries Connection: close, is an HTTP/1.0 response without keep-alive, is close-delimited, is the server's own 4xx/500 error response, or was written while its request body was unread and undrainable (remaining body bytes sent only after the response)".into(),
        "handler-made statuses are kept out of the server's error-status space (400/404/500 not used by programs)".into(),
        "framing of individual responses is C02's subject; a stream that does not parse before any closing response is not judged here".into(),
    ];
    runner::replay_pinned(&mut rep, cfg, &replay);
    runner::replay_regress(&mut rep, cfg, &replay);
    explore(&mut rep, cfg, "reuse", cfg.cases(400_000, 6_000_000), case_strategy, |c| run_case(cfg, c));
    rep
}

pub fn replay(cfg: &RunCfg, _phase: &str, case: &serde_json::Value) -> Result<Verdict, String> {
    let c: Case = runner::from_json(case)?;
    Ok(run_case(cfg, &c))
}
