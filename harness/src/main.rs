use std::{path::PathBuf, time::Instant};

use vp_core::{
    registry,
    runner::{KnownFindings, ReplayFile, Report, RunCfg, Tier},
    util,
};

fn usage() -> ! {
    eprintln!("usage: vp <ID> [--tier quick|thorough] | vp replay <file> | vp list");
    std::process::exit(2)
}

fn root_dir() -> PathBuf {
    if let Ok(r) = std::env::var("VP_ROOT") {
        return PathBuf::from(r);
    }
    PathBuf::from("/verif")
}

fn mk_cfg(tier: Tier) -> RunCfg {
    let seed = std::env::var("VERIF_SEED")
        .ok()
        .and_then(|s| s.trim().parse::<i64>().ok())
        .map(|v| v as u64)
        .unwrap_or(0);
    let workers = std::env::var("VP_WORKERS")
        .ok()
        .and_then(|s| s.parse().ok())
        .unwrap_or_else(|| {
            std::thread::available_parallelism()
                .map(|n| n.get())
                .unwrap_or(8)
                .min(16)
        });
    let scale = std::env::var("VP_SCALE")
        .ok()
        .and_then(|s| s.parse().ok())
        .unwrap_or(1.0);
    let root = root_dir();
    let kf = KnownFindings::load(&root);
    RunCfg { tier, seed, workers, root, kf, scale, strict: std::env::var_os("VP_STRICT").is_some() }
}

fn write_evidence(cfg: &RunCfg, rep: &Report, wall: f64) {
    let mut coverage = serde_json::Map::new();
    coverage.insert("evaluations".into(), rep.evaluations.into());
    coverage.insert("distinct_nontrivial".into(), (rep.nt_keys.len() as u64 + rep.extra_nt).into());
    coverage.insert("rule".into(), rep.rule.clone().into());
    coverage.insert("samples".into(), serde_json::Value::Array(rep.samples.clone()));
    coverage.insert("exhaustive".into(), rep.exhaustive.into());
    coverage.insert("classes".into(), serde_json::to_value(&rep.classes).unwrap());
    coverage.insert(
        "excluded_by_known_findings".into(),
        serde_json::to_value(&rep.excluded).unwrap(),
    );
    coverage.insert("phases".into(), serde_json::to_value(&rep.phases).unwrap());
    coverage.insert(
        "known_findings_reported".into(),
        serde_json::to_value(&rep.known_lines).unwrap(),
    );
    for (k, v) in &rep.extra {
        coverage.insert(k.clone(), v.clone());
    }
    let ev = serde_json::json!({
        "property_id": rep.id,
        "tier": cfg.tier.name(),
        "seed": cfg.seed as i64,
        "level": rep.level,
        "coverage": coverage,
        "assumptions": rep.assumptions,
        "wall_s": wall,
        "violations": rep.violations.len(),
    });
    let dir = cfg.root.join("evidence");
    let _ = std::fs::create_dir_all(&dir);
    let path = dir.join(format!("{}.json", rep.id));
    if let Err(e) = std::fs::write(&path, serde_json::to_string_pretty(&ev).unwrap()) {
        eprintln!("vp: cannot write evidence {}: {e}", path.display());
        std::process::exit(2);
    }
}

fn main() {
    util::install_quiet_panic_hook();
    let args: Vec<String> = std::env::args().skip(1).collect();
    if args.is_empty() {
        usage();
    }
    match args[0].as_str() {
        "c19-seed-corpus" => {
            // writes the valid artefacts of every C19 surface as libFuzzer seed inputs
            let root = std::path::PathBuf::from(std::env::var("VP_ROOT").unwrap_or_else(|_| "/verif".into()));
            for t in vp_core::props::c19::TARGETS {
                let dir = root.join("fuzz").join("corpus").join(vp_core::props::c19::dir_of_target(t));
                std::fs::create_dir_all(&dir).unwrap();
                for i in 0..48u16 {
                    for f in [0u8, 1, 2] {
                        let mut v = vec![f];
                        v.extend(vp_core::props::c19::base_for(t, i));
                        if v.len() > 100_000 { continue; }
                        std::fs::write(dir.join(format!("seed-{:016x}", util::hash_bytes(&v))), &v).unwrap();
                    }
                }
            }
        }
        "list" => {
            for p in registry() {
                println!("{}", p.id);
            }
        }
        "replay" => {
            let Some(file) = args.get(1) else { usage() };
            let raw = std::fs::read(file).unwrap_or_else(|e| {
                eprintln!("vp: cannot read {file}: {e}");
                std::process::exit(2)
            });
            let text = String::from_utf8_lossy(&raw).into_owned();
            // raw fuzzer inputs (fuzz/corpus/<target>/*, fuzz/artifacts/<target>/*) replay through
            // the C19 entry point of that target
            if let Some(target) = std::path::Path::new(file).parent().and_then(|d| d.file_name()).and_then(|n| vp_core::props::c19::target_of_dir(&n.to_string_lossy())) {
                if serde_json::from_str::<ReplayFile>(&text).is_err() {
                    let bytes = raw.clone();
                    let (frags, data) = vp_core::props::c19::split_fuzz_input(&bytes);
                    match vp_core::props::c19::exercise(target, data, &frags) {
                        Ok(x) => println!("replay: pass (depth={}, alloc_peak={})", x.depth, x.alloc_peak),
                        Err(e) => {
                            println!("replay: FAIL {e}");
                            println!("VIOLATION property=C19 replay={file}");
                            std::process::exit(1);
                        }
                    }
                    return;
                }
            }
            let rf: ReplayFile = serde_json::from_str(&text).unwrap_or_else(|e| {
                eprintln!("vp: cannot parse {file}: {e}");
                std::process::exit(2)
            });
            let cfg = mk_cfg(Tier::Quick);
            let Some(p) = registry().into_iter().find(|p| p.id == rf.property) else {
                eprintln!("vp: unknown property {}", rf.property);
                std::process::exit(2)
            };
            let res = util::catch(|| (p.replay)(&cfg, &rf.phase, &rf.case));
            match res {
                Ok(Ok(v)) => {
                    if let Some(msg) = v.fail {
                        println!("replay: FAIL {msg}");
                        println!("VIOLATION property={} replay={}", rf.property, file);
                        std::process::exit(1);
                    }
                    println!("replay: pass (nontrivial={}, classes={:?})", v.nontrivial, v.classes);
                }
                Ok(Err(e)) => {
                    eprintln!("vp: replay not possible: {e}");
                    std::process::exit(2);
                }
                Err(p_msg) => {
                    println!("replay: FAIL {p_msg}");
                    println!("VIOLATION property={} replay={}", rf.property, file);
                    std::process::exit(1);
                }
            }
        }
        id => {
            let mut tier = match std::env::var("VERIF_TIER").ok().as_deref() {
                Some("thorough") => Tier::Thorough,
                _ => Tier::Quick,
            };
            let mut i = 1;
            while i < args.len() {
                match args[i].as_str() {
                    "--tier" => {
                        i += 1;
                        tier = match args.get(i).map(|s| s.as_str()) {
                            Some("quick") => Tier::Quick,
                            Some("thorough") => Tier::Thorough,
                            _ => usage(),
                        };
                    }
                    _ => usage(),
                }
                i += 1;
            }
            let cfg = mk_cfg(tier);
            let Some(p) = registry().into_iter().find(|p| p.id == id) else {
                eprintln!("vp: unknown property {id}");
                std::process::exit(2)
            };
            let t0 = Instant::now();
            let rep = match util::catch(|| (p.run)(&cfg)) {
                Ok(r) => r,
                Err(e) => {
                    eprintln!("vp: harness failure (infrastructure error, not a violation): {e}");
                    std::process::exit(2);
                }
            };
            let wall = t0.elapsed().as_secs_f64();
            write_evidence(&cfg, &rep, wall);
            for l in &rep.known_lines {
                println!("{l}");
            }
            println!(
                "{}: tier={} seed={} evaluations={} distinct_nontrivial={} excluded={:?} wall={:.1}s",
                rep.id,
                cfg.tier.name(),
                cfg.seed,
                rep.evaluations,
                rep.nt_keys.len() as u64 + rep.extra_nt,
                rep.excluded,
                wall
            );
            for ph in &rep.phases {
                println!(
                    "  phase {:<24} evals={:<9} nt+={:<8} exhaustive={} {:.1}s",
                    ph.name, ph.evaluations, ph.nontrivial_distinct, ph.exhaustive, ph.wall_s
                );
            }
            if !rep.violations.is_empty() {
                for v in &rep.violations {
                    println!("  violation in phase {}: {}", v.phase, v.reason);
                    println!("VIOLATION property={} replay={}", rep.id, v.replay);
                }
                std::process::exit(1);
            }
            if let Some(e) = &rep.infra_error {
                eprintln!("vp: infrastructure error: {e}");
                std::process::exit(2);
            }
        }
    }
}
