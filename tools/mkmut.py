#!/usr/bin/env python3
"""Create a kill-mutation patch: tools/mkmut.py <name> <repo-relative-file> <<< 'OLD\n=====\nNEW'
Replaces exactly one occurrence of OLD by NEW in /repo/<file>, stores `git diff` as
/verif/mutations/<name>.diff and restores the file. /repo is left clean."""
import subprocess, sys
name, rel = sys.argv[1], sys.argv[2]
spec = sys.stdin.read()
old, new = spec.split('\n=====\n')
old = old.strip('\n'); new = new.rstrip('\n').lstrip('\n')
path = '/repo/' + rel
s = open(path).read()
n = s.count(old)
if n != 1:
    sys.exit(f'{name}: OLD occurs {n} times in {rel}')
open(path, 'w').write(s.replace(old, new, 1))
d = subprocess.run(['git', '-C', '/repo', 'diff', '--', rel], capture_output=True, text=True).stdout
subprocess.run(['git', '-C', '/repo', 'checkout', '--', rel], check=True)
open(f'/verif/mutations/{name}.diff', 'w').write(d)
print(name, 'ok', len(d.splitlines()), 'lines')
