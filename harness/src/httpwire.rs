//! E1 part 2 — HTTP/1 wire model: request renderer (ground truth by construction) and an
//! independent, strict client-side response parser. Shares no code with actix.

use serde::{Deserialize, Serialize};

use crate::util;

// ------------------------------------------------------------------------------------------
// Requests
// ------------------------------------------------------------------------------------------

#[derive(Debug, Clone, Serialize, Deserialize, PartialEq, Eq, Hash)]
pub enum ConnOpt {
    None,
    Close,
    KeepAlive,
}

#[derive(Debug, Clone, Serialize, Deserialize, PartialEq, Eq, Hash)]
pub struct ChunkSpec {
    pub len: u32,
    /// chunk extension text (without the leading ';'), e.g. "a=b"
    pub ext: Option<String>,
    /// hex digits upper case
    pub upper: bool,
    /// leading zeros on the size
    pub zeros: u8,
    /// linear white space between size and CRLF / ';'
    pub lws: u8,
}

#[derive(Debug, Clone, Serialize, Deserialize, PartialEq, Eq, Hash)]
pub enum Framing {
    None,
    /// Content-Length with `zeros` leading zeros and `ows` spaces around the value
    Length { len: u32, zeros: u8, ows: u8 },
    Chunked { chunks: Vec<ChunkSpec>, last_ext: Option<String>, te_case: u8 },
}

#[derive(Debug, Clone, Serialize, Deserialize, PartialEq, Eq, Hash)]
pub struct ReqSpec {
    pub method: String,
    pub target: String,
    /// 0 = HTTP/1.0, 1 = HTTP/1.1
    pub version: u8,
    pub headers: Vec<(String, String)>,
    pub conn: ConnOpt,
    pub expect: bool,
    pub framing: Framing,
    pub body_seed: u64,
    pub body_style: u8,
    /// 0 = as given, 1 = lower, 2 = UPPER, 3 = Camel for the framing/connection header names
    pub name_case: u8,
}

impl ReqSpec {
    pub fn get(target: &str) -> Self {
        ReqSpec {
            method: "GET".into(),
            target: target.into(),
            version: 1,
            headers: vec![],
            conn: ConnOpt::None,
            expect: false,
            framing: Framing::None,
            body_seed: 0,
            body_style: 1,
            name_case: 0,
        }
    }
    pub fn body_len(&self) -> usize {
        match &self.framing {
            Framing::None => 0,
            Framing::Length { len, .. } => *len as usize,
            Framing::Chunked { chunks, .. } => chunks.iter().map(|c| c.len as usize).sum(),
        }
    }
    pub fn body(&self) -> Vec<u8> {
        util::data(self.body_seed, self.body_style, self.body_len())
    }
    pub fn has_body_framing(&self) -> bool {
        !matches!(self.framing, Framing::None)
    }
    pub fn is_head(&self) -> bool {
        self.method == "HEAD"
    }
}

fn case_name(name: &str, style: u8) -> String {
    match style % 4 {
        1 => name.to_ascii_lowercase(),
        2 => name.to_ascii_uppercase(),
        3 => {
            let mut out = String::new();
            let mut up = true;
            for c in name.chars() {
                if up {
                    out.push(c.to_ascii_uppercase());
                } else {
                    out.push(c.to_ascii_lowercase());
                }
                up = c == '-';
            }
            out
        }
        _ => name.to_string(),
    }
}

/// Positions in the rendered stream that segmentations like to cut at.
#[derive(Debug, Clone, Default)]
pub struct Marks {
    /// offsets strictly inside a request line / header block
    pub in_head: Vec<usize>,
    /// offsets between a CR and its LF
    pub in_crlf: Vec<usize>,
    /// offsets strictly inside a chunk-size line
    pub in_chunk_size: Vec<usize>,
    /// offsets strictly inside body data
    pub in_body: Vec<usize>,
    /// offsets exactly between a message end and the next head
    pub boundaries: Vec<usize>,
}

#[derive(Debug, Clone)]
pub struct RenderedReq {
    pub start: usize,
    pub head_end: usize,
    pub end: usize,
}

pub struct Rendered {
    pub bytes: Vec<u8>,
    pub reqs: Vec<RenderedReq>,
    pub marks: Marks,
}

fn push_crlf(out: &mut Vec<u8>, marks: &mut Marks) {
    out.push(b'\r');
    marks.in_crlf.push(out.len());
    out.push(b'\n');
}

pub fn render_into(out: &mut Vec<u8>, marks: &mut Marks, r: &ReqSpec) -> RenderedReq {
    let start = out.len();
    out.extend_from_slice(r.method.as_bytes());
    out.push(b' ');
    out.extend_from_slice(r.target.as_bytes());
    out.extend_from_slice(if r.version == 0 {
        b" HTTP/1.0"
    } else {
        b" HTTP/1.1"
    });
    push_crlf(out, marks);
    let hdr = |out: &mut Vec<u8>, marks: &mut Marks, n: &str, v: &str, ows: u8| {
        out.extend_from_slice(n.as_bytes());
        out.push(b':');
        for _ in 0..(ows % 3) {
            out.push(b' ');
        }
        out.extend_from_slice(v.as_bytes());
        for _ in 0..(ows / 3 % 3) {
            out.push(b' ');
        }
        push_crlf(out, marks);
    };
    // extra headers first half, framing, rest (position of framing headers varies with count)
    let split = r.headers.len() / 2;
    for (n, v) in &r.headers[..split] {
        hdr(out, marks, n, v, 1);
    }
    match &r.framing {
        Framing::None => {}
        Framing::Length { len, zeros, ows } => {
            let v = format!("{}{}", "0".repeat(*zeros as usize), len);
            hdr(out, marks, &case_name("Content-Length", r.name_case), &v, *ows);
        }
        Framing::Chunked { te_case, .. } => {
            let v = match te_case % 3 {
                0 => "chunked",
                1 => "Chunked",
                _ => "CHUNKED",
            };
            hdr(out, marks, &case_name("Transfer-Encoding", r.name_case), v, 1);
        }
    }
    match r.conn {
        ConnOpt::None => {}
        ConnOpt::Close => hdr(out, marks, &case_name("Connection", r.name_case), "close", 1),
        ConnOpt::KeepAlive => hdr(
            out,
            marks,
            &case_name("Connection", r.name_case),
            "keep-alive",
            1,
        ),
    }
    if r.expect {
        hdr(out, marks, &case_name("Expect", r.name_case), "100-continue", 1);
    }
    for (n, v) in &r.headers[split..] {
        hdr(out, marks, n, v, 1);
    }
    push_crlf(out, marks);
    let head_end = out.len();
    for p in (start + 1)..head_end {
        marks.in_head.push(p);
    }
    let body = r.body();
    match &r.framing {
        Framing::None => {}
        Framing::Length { .. } => {
            let b0 = out.len();
            out.extend_from_slice(&body);
            for p in (b0 + 1)..out.len() {
                if marks.in_body.len() < 4096 || p % 97 == 0 {
                    marks.in_body.push(p);
                }
            }
        }
        Framing::Chunked { chunks, last_ext, .. } => {
            let mut off = 0usize;
            let size_line = |out: &mut Vec<u8>, marks: &mut Marks, len: u32, c: Option<&ChunkSpec>, ext: Option<&String>| {
                let l0 = out.len();
                let zeros = c.map(|c| c.zeros).unwrap_or(0);
                for _ in 0..zeros {
                    out.push(b'0');
                }
                let hex = if c.map(|c| c.upper).unwrap_or(false) {
                    format!("{len:X}")
                } else {
                    format!("{len:x}")
                };
                out.extend_from_slice(hex.as_bytes());
                for _ in 0..c.map(|c| c.lws).unwrap_or(0) {
                    out.push(b' ');
                }
                if let Some(e) = ext {
                    out.push(b';');
                    out.extend_from_slice(e.as_bytes());
                }
                push_crlf(out, marks);
                for p in (l0 + 1)..out.len() {
                    marks.in_chunk_size.push(p);
                }
            };
            for c in chunks {
                if c.len == 0 {
                    continue; // a zero chunk would terminate the body; never rendered as data chunk
                }
                size_line(out, marks, c.len, Some(c), c.ext.as_ref());
                let b0 = out.len();
                out.extend_from_slice(&body[off..off + c.len as usize]);
                off += c.len as usize;
                for p in (b0 + 1)..out.len() {
                    if marks.in_body.len() < 4096 || p % 97 == 0 {
                        marks.in_body.push(p);
                    }
                }
                push_crlf(out, marks);
            }
            size_line(out, marks, 0, None, last_ext.as_ref());
            push_crlf(out, marks);
        }
    }
    let end = out.len();
    marks.boundaries.push(end);
    RenderedReq { start, head_end, end }
}

pub fn render_pipeline(reqs: &[ReqSpec]) -> Rendered {
    let mut bytes = Vec::new();
    let mut marks = Marks::default();
    let mut rr = Vec::new();
    for r in reqs {
        rr.push(render_into(&mut bytes, &mut marks, r));
    }
    Rendered { bytes, reqs: rr, marks }
}

/// What the application must see for a request, derived from the spec (not from the bytes).
#[derive(Debug, Clone, PartialEq, Eq)]
pub struct ExpectedReq {
    pub method: String,
    pub target: String,
    pub version: u8,
    /// lower-cased name → values in order of appearance (OWS-trimmed)
    pub headers: Vec<(String, Vec<String>)>,
    pub body: Vec<u8>,
}

pub fn expected_headers(r: &ReqSpec) -> Vec<(String, Vec<String>)> {
    let mut flat: Vec<(String, String)> = vec![];
    let split = r.headers.len() / 2;
    for (n, v) in &r.headers[..split] {
        flat.push((n.to_ascii_lowercase(), v.trim().to_string()));
    }
    match &r.framing {
        Framing::None => {}
        Framing::Length { len, zeros, .. } => flat.push((
            "content-length".into(),
            format!("{}{}", "0".repeat(*zeros as usize), len),
        )),
        Framing::Chunked { te_case, .. } => flat.push((
            "transfer-encoding".into(),
            match te_case % 3 {
                0 => "chunked",
                1 => "Chunked",
                _ => "CHUNKED",
            }
            .into(),
        )),
    }
    match r.conn {
        ConnOpt::None => {}
        ConnOpt::Close => flat.push(("connection".into(), "close".into())),
        ConnOpt::KeepAlive => flat.push(("connection".into(), "keep-alive".into())),
    }
    if r.expect {
        flat.push(("expect".into(), "100-continue".into()));
    }
    for (n, v) in &r.headers[split..] {
        flat.push((n.to_ascii_lowercase(), v.trim().to_string()));
    }
    group_headers(flat)
}

pub fn group_headers(flat: Vec<(String, String)>) -> Vec<(String, Vec<String>)> {
    let mut out: Vec<(String, Vec<String>)> = vec![];
    for (n, v) in flat {
        match out.iter_mut().find(|e| e.0 == n) {
            Some(e) => e.1.push(v),
            None => out.push((n, vec![v])),
        }
    }
    out.sort_by(|a, b| a.0.cmp(&b.0));
    out
}

pub fn expected(r: &ReqSpec) -> ExpectedReq {
    ExpectedReq {
        method: r.method.clone(),
        target: r.target.clone(),
        version: r.version,
        headers: expected_headers(r),
        body: r.body(),
    }
}

// ------------------------------------------------------------------------------------------
// Responses: strict independent client-side parser
// ------------------------------------------------------------------------------------------

#[derive(Debug, Clone, PartialEq, Eq, Serialize)]
pub enum RespFraming {
    NoBody,
    Length(u64),
    Chunked,
    ToClose,
}

#[derive(Debug, Clone, Serialize)]
pub struct ParsedResp {
    pub version: u8,
    pub status: u16,
    pub reason: String,
    pub headers: Vec<(String, String)>,
    pub framing: RespFraming,
    #[serde(skip)]
    pub body: Vec<u8>,
    pub body_len: usize,
    pub start: usize,
    pub head_end: usize,
    pub end: usize,
    /// number of `100 Continue` interim responses that preceded this final response
    pub continues: u32,
    /// false when the stream ended (or was cut) before the message was complete
    pub complete: bool,
}

impl ParsedResp {
    pub fn header(&self, name: &str) -> Option<&str> {
        self.headers
            .iter()
            .find(|(n, _)| n.eq_ignore_ascii_case(name))
            .map(|(_, v)| v.as_str())
    }
    pub fn header_all(&self, name: &str) -> Vec<&str> {
        self.headers
            .iter()
            .filter(|(n, _)| n.eq_ignore_ascii_case(name))
            .map(|(_, v)| v.as_str())
            .collect()
    }
    pub fn conn_tokens(&self) -> Vec<String> {
        self.header_all("connection")
            .iter()
            .flat_map(|v| v.split(','))
            .map(|t| t.trim().to_ascii_lowercase())
            .filter(|t| !t.is_empty())
            .collect()
    }
    /// Does this response tell a conforming client that the connection ends after it?
    pub fn announces_close(&self) -> bool {
        let toks = self.conn_tokens();
        if toks.iter().any(|t| t == "close") {
            return true;
        }
        if self.version == 0 && !toks.iter().any(|t| t == "keep-alive") {
            return true;
        }
        self.framing == RespFraming::ToClose
    }
}

#[derive(Debug, Clone, Default, Serialize)]
pub struct ParseOut {
    pub responses: Vec<ParsedResp>,
    /// `Some` when the byte stream is not a concatenation of well-formed self-delimited messages
    pub error: Option<String>,
    /// bytes after the last complete message that were not consumed
    pub leftover: usize,
}

fn find_crlf(b: &[u8], from: usize) -> Option<usize> {
    (from..b.len().saturating_sub(1)).find(|&i| b[i] == b'\r' && b[i + 1] == b'\n')
}

fn is_tchar(c: u8) -> bool {
    matches!(c, b'!' | b'#' | b'$' | b'%' | b'&' | b'\'' | b'*' | b'+' | b'-' | b'.' | b'^' | b'_' | b'`' | b'|' | b'~')
        || c.is_ascii_alphanumeric()
}

/// Parse `stream` as the responses to requests whose methods are `is_head[i]`.
/// `closed`: the server closed the connection after the last byte (enables read-to-close bodies
/// and decides whether an incomplete trailing message is "cut" or merely "not finished yet").
pub fn parse_responses(stream: &[u8], is_head: &[bool], closed: bool) -> ParseOut {
    let mut out = ParseOut::default();
    let mut pos = 0usize;
    let mut req_idx = 0usize;
    let mut continues = 0u32;
    macro_rules! fail {
        ($($t:tt)*) => {{
            out.error = Some(format!($($t)*));
            out.leftover = stream.len() - pos;
            return out;
        }};
    }
    while pos < stream.len() {
        let start = pos;
        // ---- status line
        let Some(eol) = find_crlf(stream, pos) else {
            // incomplete head
            out.responses.push(ParsedResp {
                version: 1,
                status: 0,
                reason: String::new(),
                headers: vec![],
                framing: RespFraming::NoBody,
                body: vec![],
                body_len: 0,
                start,
                head_end: stream.len(),
                end: stream.len(),
                continues,
                complete: false,
            });
            out.leftover = 0;
            if req_idx >= is_head.len() {
                out.error = Some(format!(
                    "bytes after the last expected response at offset {start}: {}",
                    util::show_bytes(&stream[start..], 60)
                ));
            }
            return out;
        };
        let line = &stream[pos..eol];
        if line.len() < 12 || !line.starts_with(b"HTTP/1.") || line[8] != b' ' {
            fail!(
                "offset {pos}: not a status line: {}",
                util::show_bytes(line, 80)
            );
        }
        let version = match line[7] {
            b'0' => 0,
            b'1' => 1,
            _ => fail!("offset {pos}: bad HTTP version"),
        };
        if !line[9..12].iter().all(|c| c.is_ascii_digit()) {
            fail!("offset {pos}: bad status code");
        }
        let status = (line[9] - b'0') as u16 * 100 + (line[10] - b'0') as u16 * 10 + (line[11] - b'0') as u16;
        if line.len() > 12 && line[12] != b' ' {
            fail!("offset {pos}: no space after status code");
        }
        let reason = String::from_utf8_lossy(&line[line.len().min(13)..]).into_owned();
        pos = eol + 2;
        // ---- headers
        let mut headers: Vec<(String, String)> = vec![];
        let head_end;
        loop {
            let Some(eol) = find_crlf(stream, pos) else {
                out.responses.push(ParsedResp {
                    version,
                    status,
                    reason,
                    headers,
                    framing: RespFraming::NoBody,
                    body: vec![],
                    body_len: 0,
                    start,
                    head_end: stream.len(),
                    end: stream.len(),
                    continues,
                    complete: false,
                });
                if req_idx >= is_head.len() && status / 100 != 1 {
                    out.error = Some(format!("extra (incomplete) response at offset {start}"));
                }
                return out;
            };
            if eol == pos {
                pos += 2;
                head_end = pos;
                break;
            }
            let l = &stream[pos..eol];
            let Some(colon) = l.iter().position(|&c| c == b':') else {
                fail!("offset {pos}: header line without colon: {}", util::show_bytes(l, 80));
            };
            if colon == 0 || !l[..colon].iter().all(|&c| is_tchar(c)) {
                fail!("offset {pos}: bad header name: {}", util::show_bytes(l, 80));
            }
            let name = String::from_utf8_lossy(&l[..colon]).into_owned();
            let val = &l[colon + 1..];
            if val.iter().any(|&c| c == b'\r' || c == b'\n' || c == 0) {
                fail!("offset {pos}: control byte in header value");
            }
            let value = String::from_utf8_lossy(val).trim().to_string();
            headers.push((name, value));
            pos = eol + 2;
        }
        // ---- interim responses
        if status / 100 == 1 && status != 101 {
            if status == 100 {
                continues += 1;
            }
            // 1xx has no body; continue with the next message for the same request
            continue;
        }
        if req_idx >= is_head.len() {
            fail!("offset {start}: response {status} without a corresponding request");
        }
        let head_req = is_head[req_idx];
        // ---- framing
        let cls: Vec<&String> = headers
            .iter()
            .filter(|(n, _)| n.eq_ignore_ascii_case("content-length"))
            .map(|(_, v)| v)
            .collect();
        let tes: Vec<&String> = headers
            .iter()
            .filter(|(n, _)| n.eq_ignore_ascii_case("transfer-encoding"))
            .map(|(_, v)| v)
            .collect();
        let mut cl: Option<u64> = None;
        for v in &cls {
            if v.is_empty() || !v.bytes().all(|c| c.is_ascii_digit()) {
                fail!("offset {start}: invalid Content-Length {v:?}");
            }
            let Ok(n) = v.parse::<u64>() else {
                fail!("offset {start}: Content-Length overflow {v:?}");
            };
            if let Some(prev) = cl {
                if prev != n {
                    fail!("offset {start}: conflicting Content-Length headers");
                }
            }
            cl = Some(n);
        }
        let chunked = if tes.is_empty() {
            false
        } else {
            let all: Vec<String> = tes
                .iter()
                .flat_map(|v| v.split(','))
                .map(|t| t.trim().to_ascii_lowercase())
                .collect();
            if all.last().map(|s| s.as_str()) != Some("chunked") {
                fail!("offset {start}: Transfer-Encoding without final chunked: {all:?}");
            }
            if all.len() != 1 {
                fail!("offset {start}: unsupported Transfer-Encoding list {all:?}");
            }
            true
        };
        let bodiless = head_req || status == 204 || status == 304 || status / 100 == 1;
        if chunked && version == 0 && !bodiless {
            fail!("offset {start}: Transfer-Encoding: chunked in an HTTP/1.0 response (an HTTP/1.0 client cannot delimit it)");
        }
        if chunked && cl.is_some() {
            fail!("offset {start}: both Content-Length and Transfer-Encoding");
        }
        let framing = if bodiless {
            if (status == 204 || status / 100 == 1) && (chunked || cl.is_some()) {
                fail!("offset {start}: {status} response carries a length/TE header");
            }
            RespFraming::NoBody
        } else if chunked {
            RespFraming::Chunked
        } else if let Some(n) = cl {
            RespFraming::Length(n)
        } else {
            RespFraming::ToClose
        };
        let mut body = vec![];
        let mut complete = true;
        match framing {
            RespFraming::NoBody => {}
            RespFraming::Length(n) => {
                let avail = stream.len() - pos;
                if (avail as u64) < n {
                    body.extend_from_slice(&stream[pos..]);
                    pos = stream.len();
                    complete = false;
                } else {
                    body.extend_from_slice(&stream[pos..pos + n as usize]);
                    pos += n as usize;
                }
            }
            RespFraming::ToClose => {
                body.extend_from_slice(&stream[pos..]);
                pos = stream.len();
                complete = closed;
            }
            RespFraming::Chunked => loop {
                let Some(eol) = find_crlf(stream, pos) else {
                    complete = false;
                    pos = stream.len();
                    break;
                };
                let l = &stream[pos..eol];
                let hex_end = l.iter().position(|c| !c.is_ascii_hexdigit()).unwrap_or(l.len());
                if hex_end == 0 || hex_end > 16 {
                    fail!("offset {pos}: bad chunk size line {}", util::show_bytes(l, 40));
                }
                if hex_end != l.len() && l[hex_end] != b';' {
                    fail!("offset {pos}: garbage after chunk size {}", util::show_bytes(l, 40));
                }
                let size = u64::from_str_radix(std::str::from_utf8(&l[..hex_end]).unwrap(), 16).unwrap();
                pos = eol + 2;
                if size == 0 {
                    // no trailers expected from this server: next must be CRLF
                    if stream.len() < pos + 2 {
                        complete = false;
                        pos = stream.len();
                        break;
                    }
                    if &stream[pos..pos + 2] != b"\r\n" {
                        fail!("offset {pos}: expected CRLF after last chunk (trailers are not produced by this server)");
                    }
                    pos += 2;
                    break;
                }
                let avail = (stream.len() - pos) as u64;
                if avail < size {
                    body.extend_from_slice(&stream[pos..]);
                    pos = stream.len();
                    complete = false;
                    break;
                }
                body.extend_from_slice(&stream[pos..pos + size as usize]);
                pos += size as usize;
                if stream.len() < pos + 2 {
                    complete = false;
                    pos = stream.len();
                    break;
                }
                if &stream[pos..pos + 2] != b"\r\n" {
                    fail!("offset {pos}: chunk data not followed by CRLF");
                }
                pos += 2;
            },
        }
        let body_len = body.len();
        out.responses.push(ParsedResp {
            version,
            status,
            reason,
            headers,
            framing,
            body,
            body_len,
            start,
            head_end,
            end: pos,
            continues,
            complete,
        });
        continues = 0;
        req_idx += 1;
        if !complete {
            break;
        }
    }
    out.leftover = stream.len() - pos;
    out
}

/// Replace the value of every `date:` header with a fixed string (virtual time differs between
/// the two runs of a differential pair).
pub fn normalize_dates(stream: &[u8]) -> Vec<u8> {
    let mut out = Vec::with_capacity(stream.len());
    let mut i = 0;
    while i < stream.len() {
        if (i == 0 || stream[i - 1] == b'\n')
            && stream.len() >= i + 6
            && stream[i..i + 5].eq_ignore_ascii_case(b"date:")
        {
            out.extend_from_slice(b"date: X");
            while i < stream.len() && stream[i] != b'\r' {
                i += 1;
            }
        } else {
            out.push(stream[i]);
            i += 1;
        }
    }
    out
}
