#!/usr/bin/env python3
"""Regenerates /verif/MANIFEST.json from the table below (one entry per implemented check)."""
import json, os, sys
ROOT = os.path.dirname(os.path.dirname(os.path.abspath(__file__)))

CHECKS = {
 "C02": dict(
   engine="simnet",
   category="exploration",
   text="Generated pipelines x interpreted handler/body programs (status incl. 204/304, Bytes / SizedStream exact-short-long / BodyStream / custom MessageBody with size hints, empty chunks, Pending patterns, failure at end, echo of the request body, user-set framing headers, no_chunking, force_close) x arrival timings x write-buffer sizes run on the real dispatcher; the written bytes are decoded by an independent strict client-side parser that is told the request methods, and each response is compared with what its own (request, program) pair determines (status, version, 100-continue count, exact body, Connection header, termination on failing/short bodies). One request per case is re-run alone on a fresh connection and must yield the same status line, framing headers and body (independence). ~5*10^4 (quick) to 1.5*10^6 (thorough) cases; the overlap window (next request dispatched before the previous response is written) is measured and required for non-triviality.",
   note="Trusts the independent response parser and the body-program model in harness/src/{httpwire,h1engine}.rs. Only the last request of a pipeline may close, leave its body unread or fail its body (C03 owns close discipline). Handler misuse outside documented contracts (both framing headers set by hand, BodySize::None with a body status) is outside the domain. Listed findings exclude their class by construction (counted).",
   technique="property-based testing against an independent reference parser + per-request metamorphic (solo vs pipelined) relation",
   design_ref="DESIGN.md §5 C02"),
 "C03": dict(
   engine="simnet",
   category="exploration",
   text="Generated pipelines (1-5 requests whose bodies look like requests) x handler programs that read none/part/all of the body, hold it, drop it, echo it, fail, respond early or late x keep-alive off/OS/timeout x half-close allowed or not x disconnect timeout 0/200/1000 ms x arrival class of every following request and of every remaining body part (already pipelined / after a delay / only after the previous response is completely on the wire) x optional malformed tail with an attack suffix, run on the real dispatcher over the scripted socket. The wire is decoded by the independent response parser; the first response that ends the connection (Connection: close, HTTP/1.0 without keep-alive, close-delimited, server-made 4xx/500, or written while the request body was unread and undrainable) must be the last thing written and its request the last one dispatched, the socket must be shut down within the disconnect timeout, and every dispatched request must be the stream's own next request with its exact body (no body byte is ever parsed as a request). ~4*10^5 (quick) to 6*10^6 (thorough) cases.",
   note="Trusts the response parser and the drainability model (a chunked body whose payload object was dropped may be drained to its end); two listed findings (requests already sent when the closing response completed are still served; close + dropped chunked body is drained and later requests served) skip exactly that sub-check for exactly that input class, counted in evidence.",
   technique="property-based testing with ground-truth request lists + invariant over the wire history (nothing written/dispatched after the closing response), proptest over scripted schedules",
   design_ref="DESIGN.md §5 C03"),
 "C01": dict(
   engine="simnet",
   category="exploration",
   text="Generated request pipelines (ground truth known by construction) with 27 malformed-framing classes and an attack suffix are rendered to bytes and delivered to the real HttpService/h1 dispatcher over a scripted in-memory socket under generated segmentations (cuts inside heads, CRLF pairs, chunk-size lines, bodies, at message boundaries, 1-byte reads, pauses) and handler timings. The recording service's view must equal the ground truth, malformed messages must end in 4xx + close, body errors must never look like clean ends and nothing after the rejection point may be dispatched. Exploration over ~2*10^5 (quick) to 4*10^6 (thorough) cases per run; no exhaustiveness claimed.",
   note="Trusts the renderer/ground-truth model in harness/src/httpwire.rs and the scripted socket; Upgrade/CONNECT requests are outside the domain; heads above 128 KiB are a lenient class (exact parse or 4xx) because acceptance depends on read sizes; listed findings exclude their input class by construction (counted in evidence).",
   technique="property-based testing with ground truth by construction + segmentation metamorphic relation (proptest, scripted socket, paused clock)",
   design_ref="DESIGN.md §5 C01"),
 "C18": dict(
   engine="pbt",
   category="exploration",
   text="Model-based property testing: generated HeaderMap operation sequences are executed against the real map and a reference Vec-based multimap; full contents, lengths, every iterator and its size_hint at every depth, Removed/Drain results and http::HeaderMap conversions are compared after every step. Exploration (no exhaustiveness claim) is the right level: the API is pure and cheap, so 10^5-10^6 sequences per run cover the small name/value menu densely.",
   note="Trusts the reference multimap in harness/src/props/c18.rs and proptest's generators; inter-name iteration order is unspecified and not compared.",
   technique="stateful model-based property testing (proptest op sequences vs reference multimap)",
   design_ref="DESIGN.md §5 C18"),
}

PENDING_REASON = "check not yet built in this round (planned: see DESIGN.md §5/§8); not claimed until its machinery exists"
NOT_APPLICABLE = {}

def main():
    props = [json.loads(l)["id"] for l in open(os.path.join(ROOT, "properties.jsonl")) if l.strip()]
    checks = []
    for pid in props:
        if pid not in CHECKS: continue
        c = CHECKS[pid]
        checks.append({
            "property_id": pid,
            "quick_cmd": f"./check {pid} --tier quick",
            "thorough_cmd": f"./check {pid} --tier thorough",
            "evidence_file": f"evidence/{pid}.json",
            "replay_cmd_template": "./check replay {path}",
            "engine": c["engine"],
            "level_claimed": {"category": c["category"], "text": c["text"], "design_ref": c["design_ref"]},
            "level_note": c["note"],
            "technique": c["technique"],
        })
    na = []
    for pid in props:
        if pid in CHECKS: continue
        na.append({"property_id": pid, "reason": NOT_APPLICABLE.get(pid, PENDING_REASON)})
    hooks_file = os.path.join(ROOT, "hooks.json")
    hooks = json.load(open(hooks_file)) if os.path.exists(hooks_file) else {"source_commits": []}
    m = {
        "version": 1,
        "setup_cmd": "./check build",
        "hooks": {
            "guard": "actix_actix_web_verif",
            "enable": "none needed so far: every observation is made at public APIs or at the scripted socket; the cfg name `--cfg actix_actix_web_verif` is reserved for additive hooks (RUSTFLAGS in ./check would enable it)",
            "baseline_off_cmd": "cd /repo && cargo test --workspace --no-fail-fast --offline",
            "source_commits": hooks.get("source_commits", []),
            "add_only": True,
        },
        "engines": [
            {"name": "pbt", "path": "harness/src/runner.rs", "serves_properties": ["C07","C10","C14","C18"], "kind_free_text": "parallel seeded proptest runner with shrinking, replay files, class histograms, known-findings exclusion; also enumerators for small finite spaces"},
            {"name": "simnet", "path": "harness/src/simnet.rs", "serves_properties": ["C01","C02","C03","C04","C05","C06","C11","C19"], "kind_free_text": "scripted in-memory socket + paused tokio clock + interpreted handler programs driving the real HttpService/h1 dispatcher"},
        ],
        "checks": checks,
        "not_applicable": na,
        "notes": "All checks: ./check <ID> --tier quick|thorough; exit 0 = held (KNOWN-FINDING lines allowed), 1 = VIOLATION line printed, 2 = infrastructure problem. VERIF_SEED selects the PRNG stream. Known findings: known_findings.json.",
    }
    json.dump(m, open(os.path.join(ROOT, "MANIFEST.json"), "w"), indent=1)
    print("MANIFEST.json:", len(checks), "checks,", len(na), "not claimed")

main()
